"""C05  Every submitted task ends in one final state that tells the truth
(DESIGN 5 / C05)"""

import ast

from ..model import (walk, dotted, call_name, kwarg, unparse, short, UNKNOWN,
                     root_name, AnalysisError, calls_in, stores_in_target)
from ..cfg import cfg_of
from ..flow import (Deps, guards, must_pass, loop_slice, Exploration,
                    reaching_defs)
from .. import idioms as I

COMP   = ('utils/component.py', 'BaseComponent')
ACOMP  = ('utils/component.py', 'AgentComponent')
CCOMP  = ('utils/component.py', 'ClientComponent')
POPEN  = ('agent/executing/popen.py', 'Popen')
MASTER = ('raptor/master.py', 'Master')
TOUT   = ('tmgr/staging_output/default.py', 'Default')
STAGERS = [('tmgr/staging_input/default.py', 'Default'),
           ('agent/staging_input/default.py', 'Default'),
           ('agent/staging_output/default.py', 'Default'),
           ('tmgr/staging_output/default.py', 'Default')]


def all_methods(prog):
    for m in prog.modules.values():
        for c in m.classes.values():
            for f in c.methods.values():
                yield c, f


def _states(prog, f, e):
    v = prog.fold(f.module, e, f.cls)
    if v is UNKNOWN:
        return None
    return list(v) if isinstance(v, (list, tuple)) else [v]


# ------------------------------------------------------------------------------
# R05.1  route table
#
def route_table(prog):
    """rows: {'in': [(cls, state, queue, cb name, func, call)],
              'out': [(cls, state, queue, func, call)]}"""
    cached = getattr(prog, '_c05_route_table', None)
    if cached is not None:
        return cached
    rows = {'in': [], 'out': []}
    for c, f in all_methods(prog):
        if f.module.rel == 'utils/component.py':
            continue
        for call in calls_in(f.node, nested=True):
            cn = call_name(call)
            if cn == 'self.register_input':
                st = _states(prog, f, kwarg(call, 'states', 0))
                q = prog.fold(f.module, kwarg(call, 'queue', 1), f.cls)
                cb = kwarg(call, 'cb', 2)
                if st is None or q is UNKNOWN:
                    raise AnalysisError('UNRECOGNISED-IDIOM %s: cannot fold '
                                        '`%s`' % (f.where, short(call, 60)))
                for s in st:
                    rows['in'].append((c, s, q, unparse(cb) if cb is not None
                                       else None, f, call))
            elif cn == 'self.register_output':
                st = _states(prog, f, kwarg(call, 'states', 0))
                q = prog.fold(f.module, kwarg(call, 'qname', 1), f.cls)
                if st is None or q is UNKNOWN:
                    raise AnalysisError('UNRECOGNISED-IDIOM %s: cannot fold '
                                        '`%s`' % (f.where, short(call, 60)))
                for s in st:
                    rows['out'].append((c, s, q, f, call))
    try:
        prog._c05_route_table = rows
    except AttributeError:
        pass
    return rows


def class_rows(prog, rows, cls, kind):
    """rows registered by cls or one of its bases (the registration runs on
    the instance) or - for base classes - by any subclass"""
    mro = prog.mro(cls)
    out = [r for r in rows[kind] if r[0] in mro]
    return out


def pushed_state(prog, f, call, rows, cls):
    """state the things are in when pushed by this hand-on: the constant
    argument, a constant assigned to thing['state'] before, the input row's
    state for a relay callback; 'FINAL' when it is the thing's target_state;
    None if unknown"""
    st = I.handon_state(prog, f, call)
    if st is not None and st is not UNKNOWN:
        return st
    e = I.handon_state_expr(call)
    if e is not None and not (isinstance(e, ast.Constant) and e.value is None):
        # a non-constant state expression (a parameter of a wrapper)
        return None
    vals = set()
    for n in walk(f.node):
        if isinstance(n, ast.Assign):
            for t in n.targets:
                if isinstance(t, ast.Subscript) and \
                        isinstance(t.slice, ast.Constant) and \
                        t.slice.value == 'state':
                    v = prog.fold(f.module, n.value, f.cls)
                    if v is not UNKNOWN:
                        vals.add(v)
                    elif "['target_state']" in unparse(n.value):
                        vals.add('FINAL')
                    else:
                        vals.add(None)
    if vals:
        return vals.pop() if len(vals) == 1 else (
            'FINAL' if vals <= {'FINAL'} else None)
    # relay: registered as callback of an input row
    for r in rows['in']:
        if r[0] in prog.mro(cls) or cls in prog.mro(r[0]):
            if r[3] == 'self.' + f.name:
                return r[1]
    return None


def r05_1(prog, rep, rid='R05.1'):
    rep.rule(rid, 'every pushing hand-on to a non-final state has an output '
             'row in its component and a consumer registered on the same '
             '(state, queue)', minimum=14)
    rows = route_table(prog)
    final = set(prog.const('states.py', 'FINAL'))
    rep.stat('input_rows', len(rows['in']))
    rep.stat('output_rows', len(rows['out']))
    if len(rows['in']) < 10 or len(rows['out']) < 12:
        raise AnalysisError('R05.1: route table too small (%d in / %d out)'
                            % (len(rows['in']), len(rows['out'])))
    n_sites = n_push = 0
    comp = prog.cls(*COMP)
    for c, f in all_methods(prog):
        if comp not in prog.mro(c) or f.module.rel == 'utils/component.py':
            continue
        for call in calls_in(f.node, nested=True):
            if not I.is_handon(call):
                continue
            n_sites += 1
            push = I.flag(call, 'push', default=False)
            if push is not True:
                continue
            st = pushed_state(prog, f, call, rows, c)
            if st == 'FINAL' or st in final:
                continue
            if st is None:
                rep.info(rid, f, 'state of the pushing hand-on `%s` is not a '
                         'constant' % short(call, 50), f.loc(call))
                continue
            n_push += 1
            rep.saw(f)
            # concrete classes this code runs in: c and its subclasses
            concrete = [k for k in prog.subclasses(c)] or [c]
            missing = []
            for k in concrete:
                outs = [r for r in class_rows(prog, rows, k, 'out')
                        if r[1] == st]
                if not outs:
                    # only a problem for classes that can be instantiated as
                    # components: they register at least one route themselves
                    if class_rows(prog, rows, k, 'out') or \
                            class_rows(prog, rows, k, 'in'):
                        missing.append(k.name)
                    continue
                for r in outs:
                    cons = [i for i in rows['in'] if i[1] == st and
                            i[2] == r[2]]
                    if not cons:
                        missing.append('%s: no consumer of (%s, %s)'
                                       % (k.name, st, r[2]))
            rep.check(not missing, rid, f, '`%s` -> %s is routed (output row '
                      'and consumer exist)' % (short(call, 40), st),
                      construct=call, message='%s pushes tasks in state %s '
                      'but %s: BaseComponent.advance logs "lost" and the '
                      'tasks silently vanish' % (
                          f.qual, st, '; '.join(
                              m if ':' in m else '%s registers no output for '
                              'that state' % m for m in missing)),
                      loc=f.loc(call),
                      history='every task that reaches this hand-on is '
                      'dropped: it never reaches a final state')
    rep.stat('handon_sites', n_sites)
    rep.stat('pushing_handons', n_push)
    if n_sites < 60:
        raise AnalysisError('R05.1: only %d hand-on sites found' % n_sites)
    # every consumer has a worker callback
    for r in rows['in']:
        cls, st, q, cb, f, call = r
        okcb = cb is not None and cb.startswith('self.') and \
            prog.find_method(cls, cb[5:]) is not None
        rep.check(okcb, rid, f, 'input row (%s, %s) of %s has the worker %s'
                  % (st, q, cls.name, cb), construct=call,
                  message='%s registers the input (%s, %s) without an '
                  'existing worker method (%s)' % (cls.name, st, q, cb),
                  loc=f.loc(call))
    # the pipeline is closed: the states of the input rows are pushed by
    # somebody
    pushed = set()
    for c, f in all_methods(prog):
        for call in calls_in(f.node, nested=True):
            if I.is_handon(call):
                st = pushed_state(prog, f, call, rows, c)
                if st:
                    pushed.add(st)
            if call_name(call) in ('self._advance_tasks',):
                pass
    return rows


# ------------------------------------------------------------------------------
# R05.2  outcome tables
#
def r05_2(prog, rep, rid='R05.2'):
    rep.rule(rid, 'exit code 0 <=> target state DONE, anything else FAILED '
             'with exit code and exception recorded; the client takes the '
             'final state from target_state, FAILED from its own handler',
             minimum=6)
    done = prog.const('states.py', 'DONE')
    failed = prog.const('states.py', 'FAILED')
    po = prog.cls(*POPEN)
    f = prog.find_method(po, '_check_running')
    rep.saw(f)
    g = cfg_of(f)
    smap = I.stmt_node_map(g)
    sets = []
    for n in g.stmt_nodes():
        if n.kind == 'stmt' and isinstance(n.ast, ast.Assign) and any(
                isinstance(t, ast.Subscript) and
                isinstance(t.slice, ast.Constant) and
                t.slice.value == 'target_state' for t in n.ast.targets):
            sets.append((n, prog.fold(f.module, n.ast.value)))
    if not sets:
        raise AnalysisError('UNRECOGNISED-IDIOM %s: target_state assignments'
                            % f.where)
    # the exit code variable: result of .poll()
    ec = None
    for n in walk(f.node):
        if isinstance(n, ast.Assign) and isinstance(n.value, ast.Call) and \
                isinstance(n.value.func, ast.Attribute) and \
                n.value.func.attr in ('poll', 'wait') and \
                isinstance(n.targets[0], ast.Name):
            ec = n.targets[0].id
    if ec is None:
        raise AnalysisError('UNRECOGNISED-IDIOM %s: exit code variable'
                            % f.where)

    def atom_zero(a, lab):
        """'zero' / 'nonzero' / None: what the test `a`, taken with the
        outcome lab, says about ec == 0"""
        if isinstance(a, ast.UnaryOp) and isinstance(a.op, ast.Not):
            return atom_zero(a.operand, 'F' if lab == 'T' else 'T')
        if isinstance(a, ast.Compare) and len(a.ops) == 1 and \
                ec in {x.id for x in walk(a) if isinstance(x, ast.Name)} \
                and isinstance(a.comparators[0], ast.Constant) and \
                a.comparators[0].value == 0:
            eq = isinstance(a.ops[0], ast.Eq)
            ne = isinstance(a.ops[0], ast.NotEq)
            if eq or ne:
                return 'zero' if (lab == 'T') == eq else 'nonzero'
        if isinstance(a, ast.Name) and a.id == ec:
            return 'nonzero' if lab == 'T' else 'zero'
        return None

    def zero_guard(nid):
        """'zero' / 'nonzero' / None: what the guards say about ec == 0"""
        for tid, lab in guards(g, nid):
            z = atom_zero(g.nodes[tid].ast, lab)
            if z is not None:
                return z
        return None
    # `t['target_state'] = A if <test> else B` (a subscript target is not
    # split by the canonical form): one case per arm, guarded by the test
    cases = []
    for n, v in sets:
        if isinstance(n.ast.value, ast.IfExp):
            x = n.ast.value
            for arm, lab in ((x.body, 'T'), (x.orelse, 'F')):
                cases.append((n, prog.fold(f.module, arm),
                              zero_guard(n.id) or atom_zero(x.test, lab)))
        else:
            cases.append((n, v, zero_guard(n.id)))
    if len(cases) < 2:
        raise AnalysisError('UNRECOGNISED-IDIOM %s: target_state assignments'
                            % f.where)
    for n, v, zg in cases:
        if v == done:
            rep.check(zg == 'zero', rid, f, 'target_state = DONE only under '
                      'exit code 0', construct=n.ast, message='Popen.'
                      '_check_running records DONE %s' % (
                          'for a non-zero exit code' if zg == 'nonzero' else
                          'without testing the exit code'), loc=f.loc(n.ast),
                      history='a task whose process exits with code 1 ends '
                      'as DONE')
        elif v == failed:
            rep.check(zg == 'nonzero', rid, f, 'target_state = FAILED only '
                      'under a non-zero exit code', construct=n.ast,
                      message='Popen._check_running records FAILED %s' % (
                          'for exit code 0' if zg == 'zero' else 'without '
                          'testing the exit code'), loc=f.loc(n.ast),
                      history='a task whose process exits with code 0 ends '
                      'as FAILED')
            # exit code and exception recorded on the failing branch
            rec = set()
            for m in g.stmt_nodes():
                if m.kind == 'stmt' and isinstance(m.ast, ast.Assign) and \
                        zero_guard(m.id) == 'nonzero':
                    for t in m.ast.targets:
                        if isinstance(t, ast.Subscript) and \
                                isinstance(t.slice, ast.Constant):
                            rec.add(t.slice.value)
            # exit_code may be recorded before the branch for both outcomes
            for m in g.stmt_nodes():
                if m.kind == 'stmt' and isinstance(m.ast, ast.Assign) and \
                        zero_guard(m.id) is None and \
                        must_pass(g, g.entry.id, n.id, [m.id]):
                    for t in m.ast.targets:
                        if isinstance(t, ast.Subscript) and \
                                isinstance(t.slice, ast.Constant):
                            rec.add(t.slice.value)
            rep.check({'exit_code', 'exception'} <= rec, rid, f, 'the failing '
                      'branch records exit_code and exception',
                      construct='check_running:failed-record',
                      message='Popen._check_running marks a task FAILED '
                      'without recording %s on it' % sorted(
                          {'exit_code', 'exception'} - rec), loc=f.loc(n.ast),
                      history='a task fails with exit code 3: the '
                      'application sees FAILED with exit_code None')
        else:
            rep.bad(rid, f, n.ast, 'Popen._check_running records the target '
                    'state %r for an exited process (only DONE / FAILED are '
                    'truthful here)' % (v,), f.loc(n.ast))
    # the DONE branch records the exit code too
    rec0 = set()
    for m in g.stmt_nodes():
        if m.kind == 'stmt' and isinstance(m.ast, ast.Assign) and \
                zero_guard(m.id) in ('zero', None):
            for t in m.ast.targets:
                if isinstance(t, ast.Subscript) and \
                        isinstance(t.slice, ast.Constant):
                    rec0.add(t.slice.value)
    rep.check('exit_code' in rec0, rid, f, 'the DONE branch records the exit '
              'code', construct='check_running:done-record',
              message='Popen._check_running does not record exit_code for a '
              'successful task', loc=f.loc())

    # client side: final state from target_state, FAILED from the handler
    to = prog.cls(*TOUT)
    for mname in ('work', '_handle_task'):
        f = prog.find_method(to, mname)
        rep.saw(f)
        for n in walk(f.node):
            if isinstance(n, ast.Assign):
                for t in n.targets:
                    if isinstance(t, ast.Subscript) and \
                            isinstance(t.slice, ast.Constant) and \
                            t.slice.value == 'state':
                        okv = isinstance(n.value, ast.Subscript) and \
                            isinstance(n.value.slice, ast.Constant) and \
                            n.value.slice.value == 'target_state' and \
                            root_name(n.value) == root_name(t)
                        rep.check(okv, rid, f, "the final state is the task's "
                                  "own target_state", construct=n,
                                  message="tmgr staging output sets the "
                                  "final state from `%s`, not from the task's "
                                  "own target_state" % short(n.value, 40),
                                  loc=f.loc(n),
                                  history='a FAILED task is reported DONE (or '
                                  'gets the state of another task)')
    f = prog.find_method(to, 'work')
    g = cfg_of(f)
    smap = I.stmt_node_map(g)
    for c in calls_in(f.node):
        if not I.is_handon(c):
            continue
        n = smap[id(c)]
        in_handler = any(g.nodes[x].kind == 'handler' for x in
                         _handler_ancestors(g, n.id))
        st = I.handon_state(prog, f, c)
        if in_handler:
            rep.check(st == failed, rid, f, 'a staging error ends the task as '
                      'FAILED', construct=c, message='the error handler of '
                      'tmgr staging output hands the task on in state %r'
                      % (st,), loc=f.loc(c),
                      history='an output file cannot be transferred: the '
                      'task ends as DONE')


def _records_any(prog, K, f, a, depth=0):
    """statement `a` records an exception on some dict: X['exception'] = ..,
    X.update({'exception': ..}) / X.update(exception=..), or an own helper
    method that does"""
    for n in walk(a):
        if isinstance(n, ast.Assign) and any(
                isinstance(t, ast.Subscript) and
                isinstance(t.slice, ast.Constant) and
                t.slice.value == 'exception' for t in n.targets):
            return True
        if isinstance(n, ast.Call) and isinstance(n.func, ast.Attribute) and \
                n.func.attr == 'update':
            if any(kw.arg == 'exception' for kw in n.keywords) or (
                    n.args and isinstance(n.args[0], ast.Dict) and any(
                        isinstance(k, ast.Constant) and k.value == 'exception'
                        for k in n.args[0].keys)):
                return True
        elif isinstance(n, ast.Call) and depth < 2 and \
                call_name(n).startswith('self.') and \
                call_name(n).count('.') == 1:
            h = prog.resolve_call(f, n, K)
            if h is not None and h is not f and h.cls is not None and \
                    h.name != 'advance' and any(
                        _records_any(prog, K, h, st, depth + 1)
                        for st in h.node.body):
                return True
    return False


def _handler_ancestors(g, nid):
    """handler nodes from which nid is reachable without leaving the handler
    body lexically: approximated by predecessors reachable backwards until a
    handler node"""
    out = set()
    seen = set()
    todo = [nid]
    while todo:
        n = todo.pop()
        for e in g.pred[n]:
            if e.src in seen:
                continue
            seen.add(e.src)
            if g.nodes[e.src].kind == 'handler':
                out.add(e.src)
                continue
            if e.label == 'exc':
                continue
            todo.append(e.src)
    # only handlers that dominate nid count
    return {h for h in out if must_pass(g, g.entry.id, nid, [h])}


def _worker_calls(g):
    """[(cfg node, call)] of the calls of a registered worker in work_cb:
    `self._workers[<state>](..)`, or a call of a local which is bound to
    `self._workers[<state>]` / `self._workers.get(<state>)` by every
    definition that reaches the call"""
    def is_lookup(e):
        return e is not None and (
            (isinstance(e, ast.Subscript) and
             'self._workers' in unparse(e.value)) or
            (isinstance(e, ast.Call) and
             unparse(e.func) == 'self._workers.get'))
    out = []
    for n in g.stmt_nodes():
        if n.kind != 'stmt':
            continue
        for c in calls_in(n.ast):
            if isinstance(c.func, ast.Subscript) and \
                    'self._workers' in unparse(c.func):
                out.append((n, c))
            elif isinstance(c.func, ast.Name):
                defs = reaching_defs(g, c.func.id, n.id)
                if defs and all(is_lookup(v) for d, v in defs):
                    out.append((n, c))
    return out


# ------------------------------------------------------------------------------
# R05.3  component survival
#
def r05_3(prog, rep, rid='R05.3'):
    rep.rule(rid, 'a worker that raises fails its things (exception '
             'recorded, FAILED hand-on) and the component keeps running',
             minimum=3)
    comp = prog.cls(*COMP)
    f = prog.find_method(comp, 'work_cb')
    rep.saw(f)
    g = cfg_of(f)
    smap = I.stmt_node_map(g)
    workers = [n for n, c in _worker_calls(g)]
    if not workers:
        raise AnalysisError('UNRECOGNISED-IDIOM %s: worker call' % f.where)
    failed = prog.const('states.py', 'FAILED')
    for w in workers:
        hs = []
        for e in g.succ[w.id]:
            if e.label == 'exc':
                t = g.nodes[e.dst]
                hs = [g.nodes[x.dst] for x in g.succ[t.id]] \
                    if t.kind == 'dispatch' else [t]
        hd = [h for h in hs if h.kind == 'handler']
        onward = [h for h in hs if h.kind != 'handler']
        catch_all = any(h.ast.type is None or unparse(h.ast.type).split('.')[-1]
                        in ('Exception', 'BaseException') for h in hd)
        rep.check(bool(hd) and catch_all and not onward, rid, f,
                  'the worker call is inside a try whose handler catches '
                  'Exception', construct='work_cb:try',
                  message='BaseComponent.work_cb calls the worker without a '
                  'catch-all handler: an exception in one worker ends the '
                  'component loop for all tasks', loc=f.loc(w.ast),
                  history='one task with a malformed description raises in '
                  'the stager: every later task hangs in *_PENDING')
        for h in hd:
            region = g.reachable(h.id, labels={'next', 'T', 'F', 'iter',
                                               'done'})
            hands = [c for x in region for c in I.stmt_calls(g.nodes[x])
                     if I.is_handon(c)]
            fstates = set()
            for x in region:
                for c in I.stmt_calls(g.nodes[x]):
                    if I.is_handon(c):
                        fstates.add(I.handon_state(prog, f, c))
                    elif call_name(c).startswith('self.') and \
                            call_name(c).count('.') == 1:
                        hf = prog.resolve_call(f, c, comp)
                        if hf is not None and hf.cls is not None:
                            fstates |= {I.handon_state(prog, hf, c2)
                                        for c2 in calls_in(hf.node)
                                        if I.is_handon(c2)}
            # the record: X['exception'] = .. / X.update({'exception': ..}),
            # here or in an own helper method (order and coverage: R05.7)
            rec = any(_records_any(prog, comp, f, g.nodes[x].ast)
                      for x in region if g.nodes[x].kind == 'stmt')
            reraise = any(g.nodes[x].kind == 'stmt' and
                          isinstance(g.nodes[x].ast, ast.Raise)
                          for x in region)
            okh = failed in fstates
            rep.check(okh and rec and not reraise, rid, f, 'the handler '
                      'records the exception on the things and hands them on '
                      'as FAILED without re-raising', construct='work_cb:'
                      'handler', message='the error handler of work_cb %s'
                      % ('re-raises' if reraise else 'does not hand the '
                         'things on as FAILED' if not okh else 'does not '
                         'record the exception on the things'),
                      loc=f.loc(h.ast),
                      history='a worker raises: its tasks stay non-final '
                      'forever (or end FAILED without any explanation)')
    f = prog.find_method(comp, '_work_loop')
    rep.saw(f)
    g = cfg_of(f)
    # the call may sit in an assignment or directly in the test (`if not
    # self.work_cb(): break`)
    calls = [n for n in g.stmt_nodes() if n.kind in ('stmt', 'test') and any(
        call_name(c) == 'self.work_cb' for c in calls_in(n.ast))]
    if not calls:
        raise AnalysisError('UNRECOGNISED-IDIOM %s: work_cb call' % f.where)
    for w in calls:
        okl = False
        for e in g.succ[w.id]:
            if e.label == 'exc':
                t = g.nodes[e.dst]
                hs = [g.nodes[x.dst] for x in g.succ[t.id]] \
                    if t.kind == 'dispatch' else [t]
                if hs and all(h.kind == 'handler' for h in hs):
                    # the handler continues the loop
                    okl = all(any(ed.back for x in g.reachable(
                        h.id, labels={'next', 'T', 'F'}) for ed in g.succ[x])
                        for h in hs)
        rep.check(okl and bool(w.loops), rid, f, '_work_loop swallows '
                  'exceptions of work_cb and continues the loop',
                  construct='work_loop:swallow', message='BaseComponent.'
                  '_work_loop does not catch exceptions of work_cb inside '
                  'its loop: the component thread ends on the first error',
                  loc=f.loc(w.ast),
                  history='an assertion in work_cb (unknown state) kills the '
                  'component; every later task hangs')


# ------------------------------------------------------------------------------
# R05.18  no error of work_cb ever ends the worker thread
#
# R05.3 asks that the handler around `self.work_cb()` *can* continue the
# loop.  The property needs more: on *every* normal path the handler returns
# to the loop head - a path on which it leaves the loop (an error budget, a
# "too many errors" counter, a conditional re-raise / return / break) ends
# the worker thread for the history that makes the path's guards true, and
# every task which reaches the component later is never looked at.  The only
# way out which is not an effect of the error is the loop's own termination
# test (the same expression, the same polarity).
#
_NOT_ERRORS = ('KeyboardInterrupt', 'SystemExit', 'GeneratorExit')


def _norm_test(g, node):
    """(text, flipped) of a cfg test: leading `not`s stripped"""
    a = _resolve_names(g, node.ast, node.id)
    flip = False
    while isinstance(a, ast.UnaryOp) and isinstance(a.op, ast.Not):
        a = a.operand
        flip = not flip
    return unparse(a), flip


def _loop_exit_tests(g, L, tests=None):
    """{(text, label)}: the outcomes of the loop's own condition (the tests
    reached from the head before any statement) which leave the loop"""
    body = g.loop_body[L.id] | {L.id}
    out = set()
    seen = set()
    todo = [e.dst for e in g.succ[L.id] if e.label != 'exc']
    while todo:
        nid = todo.pop()
        if nid in seen or nid not in body:
            continue
        seen.add(nid)
        n = g.nodes[nid]
        if n.kind == 'join':
            todo += [e.dst for e in g.succ[nid] if e.label != 'exc']
        elif n.kind == 'test':
            if tests is not None:
                tests.append(n)
            text, flip = _norm_test(g, n)
            for e in g.succ[nid]:
                if e.label not in ('T', 'F'):
                    continue
                d = g.nodes[e.dst]
                if e.dst in body and not (d.kind == 'stmt' and
                                          isinstance(d.ast, ast.Break)):
                    if not e.back:
                        todo.append(e.dst)
                else:
                    lab = e.label if not flip else \
                        ('F' if e.label == 'T' else 'T')
                    out.add((text, lab))
    return out


def _raises_uncaught(body):
    """a `raise` statement in the statement list which is not inside the body
    of a try with handlers (nested functions are not entered)"""
    for a in body:
        if isinstance(a, ast.Raise):
            return True
        if isinstance(a, (ast.FunctionDef, ast.AsyncFunctionDef,
                          ast.ClassDef)):
            continue
        if isinstance(a, ast.Try):
            parts = ([] if a.handlers else [a.body]) + \
                [h.body for h in a.handlers] + [a.orelse, a.finalbody]
        else:
            parts = [getattr(a, k) for k in ('body', 'orelse', 'finalbody')
                     if isinstance(getattr(a, k, None), list)]
        if any(_raises_uncaught(p) for p in parts):
            return True
    return False


def r05_18(prog, rep, rid='R05.18'):
    rep.rule(rid, 'the handler of work_cb errors in _work_loop returns to the '
             'loop head on every path: no count or condition lets an error '
             'end the worker thread', minimum=1)
    comp = prog.cls(*COMP)
    f = prog.find_method(comp, '_work_loop')
    rep.saw(f)
    g = cfg_of(f)
    calls = [n for n in g.stmt_nodes() if n.kind in ('stmt', 'test') and any(
        call_name(c) == 'self.work_cb' for c in calls_in(n.ast))]
    if not calls:
        raise AnalysisError('UNRECOGNISED-IDIOM %s: work_cb call' % f.where)
    normal = ('next', 'T', 'F', 'iter', 'done')
    for w in calls:
        hs = []
        for e in g.succ[w.id]:
            if e.label == 'exc':
                t = g.nodes[e.dst]
                hs = [g.nodes[x.dst] for x in g.succ[t.id]] \
                    if t.kind == 'dispatch' else [t]
        hs = [h for h in hs if h.kind == 'handler' and not (
            h.ast.type is not None and
            unparse(h.ast.type).split('.')[-1] in _NOT_ERRORS)]
        if not w.loops or not hs:
            # no loop / no handler: R05.3 reports it
            rep.check(False, rid, f, '', construct='work_loop:returns',
                      message='BaseComponent._work_loop does not catch the '
                      'exceptions of work_cb inside its loop: the worker '
                      'thread ends on the first error', loc=f.loc(w.ast),
                      history='an assertion in work_cb (thing in a state '
                      'without worker) ends the component thread; every '
                      'later task hangs')
            continue
        L = g.nodes[w.loops[-1]]
        body = g.loop_body[L.id] | {L.id}
        ctests = []
        exits = _loop_exit_tests(g, L, ctests)
        # what the loop's own condition reads: plain names, dotted
        # attributes, and the flags asked by `<x>.is_set()`
        cond_reads, cond_flags = set(), set()
        for t in ctests:
            for x in ast.walk(t.ast):
                if isinstance(x, (ast.Name, ast.Attribute)) and dotted(x):
                    cond_reads.add(dotted(x))
                if isinstance(x, ast.Call) and \
                        isinstance(x.func, ast.Attribute) and \
                        x.func.attr in ('is_set', 'isSet'):
                    cond_flags.add(unparse(x.func.value))
        cond_reads -= {'self'}
        for h in hs:
            # walk the handler; stop at the loop head; do not follow an
            # outcome of the loop's own termination test
            leaves = []
            seen = {}
            todo = [(h.id, ())]
            while todo:
                nid, path = todo.pop()
                if nid in seen:
                    continue
                seen[nid] = path
                n = g.nodes[nid]
                if nid not in body:
                    leaves.append((n, path))
                    continue
                if nid == L.id:
                    continue
                for e in g.succ[nid]:
                    if e.label not in normal:
                        # an explicit raise inside the handler leaves, too
                        if n.kind == 'stmt' and isinstance(n.ast, ast.Raise) \
                                and g.nodes[e.dst].id not in body:
                            leaves.append((n, path))
                        continue
                    p = path
                    if n.kind == 'test' and e.label in ('T', 'F'):
                        text, flip = _norm_test(g, n)
                        lab = e.label if not flip else \
                            ('F' if e.label == 'T' else 'T')
                        if (text, lab) in exits:
                            continue
                        p = path + ('%s is %s' % (short(n.ast, 40), {
                            'T': 'true', 'F': 'false'}[e.label]),)
                    todo.append((e.dst, p))
            inside = h.id in body
            # the handler makes the loop's own condition fail: it changes a
            # name the condition reads, or sets the flag the condition asks
            ends = None
            stmts = [g.nodes[x].ast for x in seen
                     if x in body and x != L.id and
                     g.nodes[x].kind == 'stmt' and g.nodes[x].ast is not None]
            for c in [c for a in list(stmts) for c in calls_in(a)]:
                if call_name(c).startswith('self.') and \
                        call_name(c).count('.') == 1:
                    hf = prog.resolve_call(f, c, comp)
                    if hf is not None and hf.cls is not None and \
                            hf.node is not f.node:
                        stmts += [x for x in walk(hf.node)
                                  if isinstance(x, ast.stmt) and
                                  x is not hf.node]
                        if _raises_uncaught(hf.node.body):
                            ends = 'the handler calls %s, which can raise' \
                                % hf.qual
            for a in stmts if inside else []:
                tg = a.targets if isinstance(a, ast.Assign) else \
                    [a.target] if isinstance(a, (ast.AugAssign,
                                                 ast.AnnAssign)) else []
                for t in tg:
                    for x in (t.elts if isinstance(t, (ast.Tuple, ast.List))
                              else [t]):
                        if dotted(x) and dotted(x) in cond_reads:
                            ends = ends or 'the handler changes `%s`, which ' \
                                'the condition of the loop reads' % dotted(x)
                for c in calls_in(a):
                    if isinstance(c.func, ast.Attribute) and \
                            c.func.attr == 'set' and not c.args and \
                            unparse(c.func.value) in cond_flags:
                        ends = ends or 'the handler sets `%s`, the flag ' \
                            'which ends the loop' % unparse(c.func.value)
            ok = inside and not leaves and not ends
            why = ''
            if not inside:
                why = 'the handler is outside of the loop'
            elif ends and not leaves:
                why = ends
            elif leaves:
                n, path = leaves[0]
                why = 'the handler leaves the loop%s' % (
                    ' when ' + ' and '.join('`%s`' % x for x in path)
                    if path else ' unconditionally')
            rep.check(ok, rid, f, 'after an error of work_cb the handler '
                      'returns to the loop head on every path',
                      construct='work_loop:returns',
                      message='BaseComponent._work_loop: %s: an error raised '
                      'by work_cb (e.g. the assertion for a thing in a state '
                      'the component has no worker for) can end the worker '
                      'thread; _finalize() runs and every task which reaches '
                      'the component later is never looked at and never '
                      'becomes final' % why, loc=f.loc(h.ast),
                      history='work_cb raises often enough to make the '
                      'condition true (e.g. stray things in a state without '
                      'worker, arbitrarily far apart), then further tasks '
                      'arrive: they stay in their *_PENDING state forever')


# ------------------------------------------------------------------------------
# R05.4  per-task isolation in the stagers
#
def per_task_handlers(prog, f):
    """[(loop head, handler call node, handler nodes)] for loops over tasks
    in which a per-task worker is called inside a try"""
    g = cfg_of(f)
    smap = I.stmt_node_map(g)
    out = []
    for n in g.stmt_nodes():
        if n.kind != 'stmt' or not n.loops:
            continue
        for c in calls_in(n.ast):
            cn = call_name(c)
            if cn.startswith('self._handle_task'):
                hs = []
                for e in g.succ[n.id]:
                    if e.label == 'exc':
                        t = g.nodes[e.dst]
                        hs = [g.nodes[x.dst] for x in g.succ[t.id]] \
                            if t.kind == 'dispatch' else [t]
                out.append((g, n, c, hs))
    return out


def r05_4(prog, rep, rid='R05.4'):
    rep.rule(rid, 'in every stager the per-task handler call is inside a try '
             'in the loop body whose handler records the exception on that '
             'task and hands that task on as FAILED', minimum=8)
    failed = prog.const('states.py', 'FAILED')
    n = 0
    for anchor in STAGERS:
        K = prog.cls(*anchor)
        for mname in ('work', '_work'):
            f = K.methods.get(mname)
            if f is None:
                continue
            rep.saw(f)
            for g, node, call, hs in per_task_handlers(prog, f):
                n += 1
                label = '%s::%s.%s' % (anchor[0].rsplit('/', 1)[0], K.name,
                                       mname)
                hd = [h for h in hs if h.kind == 'handler' and
                      set(node.loops) <= set(h.loops)]
                onward = [h for h in hs if h.kind != 'handler']
                rep.check(bool(hd) and not onward, rid, f, '%s: `%s` is '
                          'isolated per task' % (label, short(call, 40)),
                          construct='%s:try' % label, message='%s calls `%s` '
                          'without a catch-all handler inside the per-task '
                          'loop: a staging error of one task fails the whole '
                          'bulk' % (label, short(call, 50)), loc=f.loc(call),
                          history='one task names a missing input file: all '
                          'tasks of the bulk end FAILED')
                if not hd:
                    continue
                # the task of this iteration
                tv = None
                for x in call.args:
                    if isinstance(x, ast.Name):
                        tv = x.id
                        break
                region = set()
                for h in hd:
                    region |= g.reachable(h.id, labels={'next', 'T', 'F',
                                                        'iter', 'done'},
                                          no_back=True) & \
                        g.loop_body[node.loops[-1]]
                rec = any(g.nodes[x].kind == 'stmt' and
                          isinstance(g.nodes[x].ast, ast.Assign) and any(
                              isinstance(t, ast.Subscript) and
                              isinstance(t.slice, ast.Constant) and
                              t.slice.value == 'exception' and
                              root_name(t) == tv
                              for t in g.nodes[x].ast.targets)
                          for x in region)
                # FAILED hand-on of that task: directly, or collected into a
                # list which is handed on as FAILED after the loop
                okf = False
                for x in region:
                    for c in I.stmt_calls(g.nodes[x]):
                        if (I.is_handon(c) or call_name(c) ==
                                'self._advance_tasks') and \
                                _names(c.args[0] if c.args else None) & {tv}:
                            st = I.handon_state(prog, f, c)
                            if st == failed:
                                okf = True
                        if isinstance(c.func, ast.Attribute) and \
                                c.func.attr == 'append' and c.args and \
                                _names(c.args[0]) & {tv} and \
                                isinstance(c.func.value, ast.Name):
                            lst = c.func.value.id
                            for c2 in calls_in(f.node):
                                if (I.is_handon(c2) or call_name(c2) ==
                                        'self._advance_tasks') and c2.args \
                                        and _names(c2.args[0]) & {lst} and \
                                        I.handon_state(prog, f, c2) == failed:
                                    okf = True
                rep.check(okf, rid, f, '%s: the handler hands that task on as '
                          'FAILED' % label, construct='%s:failed' % label,
                          message='%s: the per-task error handler does not '
                          'hand the failing task on as FAILED' % label,
                          loc=f.loc(call),
                          history='a staging error leaves the task in the '
                          'staging state forever')
                rep.check(rec, rid, f, '%s: the handler records the exception '
                          'on that task' % label, construct='%s:record'
                          % label, message='%s: the per-task error handler '
                          'fails the task without recording the exception on '
                          'it: the application sees FAILED without any '
                          'explanation (the sibling stagers record '
                          "task['exception'] / task['exception_detail'])"
                          % label, loc=f.loc(call),
                          history='an output file cannot be transferred: '
                          'task.exception is None')
    if n < 4:
        raise AnalysisError('R05.4: only %d per-task handler calls found in '
                            'the stagers' % n)


def _names(e):
    if e is None:
        return set()
    return {x.id for x in walk(e) if isinstance(x, ast.Name)}


# ------------------------------------------------------------------------------
# R05.4b  one hand-on per task in the client output stager
#
def r05_4b(prog, rep, rid='R05.4b'):
    rep.rule(rid, 'tmgr staging output hands every task of the bulk on '
             'exactly once (handler callee included; every task is sorted '
             'into exactly one of the lists that are handed on)', minimum=4)
    to = prog.cls(*TOUT)
    f = prog.find_method(to, 'work')
    fh = prog.find_method(to, '_handle_task')
    g = cfg_of(f)
    # summary of _handle_task: hand-ons of its task parameter on the normal
    # exit
    gh = cfg_of(fh)
    hv = [p for p in fh.params if p != 'self'][0]

    def count(gx, fx, var, start, stop=None, stop_edge=None, callee=None):
        def transfer(node, edge, st):
            if edge.label == 'exc':
                return st
            if node.kind == 'stmt':
                for c in calls_in(node.ast):
                    if I.is_handon(c) and _names(I.handon_thing(c)) & {var}:
                        st = min(2, st + 1)
                    elif callee and call_name(c) == callee[0] and c.args and \
                            _names(c.args[0]) & {var}:
                        st = min(2, st + callee[1])
            return st
        return Exploration(gx, start, 0, transfer, stop=stop,
                           stop_edge=stop_edge)
    exh = count(gh, fh, hv, gh.entry.id)
    inner = {t.state for t in exh.terminals if t.node == gh.exit.id}
    if not inner:
        raise AnalysisError('UNRECOGNISED-IDIOM %s: _handle_task has no '
                            'normal exit' % fh.where)
    if len(inner) != 1:
        # the number of hand-ons depends on the path through _handle_task
        # (each loop body is entered at most once by the exploration: a
        # hand-on inside a loop shows as {0, 1}): some path does not hand the
        # task on exactly once
        wrong = [t for t in exh.terminals if t.node == gh.exit.id and
                 t.state != 1]
        rep.bad(rid, fh, 'tmgr-output:_handle_task hand-ons=%s'
                % sorted(inner),
                '%s hands its task on %s time(s) depending on the path (a '
                'hand-on inside a loop runs once per iteration, zero times '
                'without one): a task with output directives is not handed '
                'on exactly once' % (fh.qual, ' / '.join(
                    str(x) for x in sorted(inner))), fh.loc(),
                history='a DONE task with two TRANSFER output directives is '
                'published as final twice; one whose directive list expands '
                'to nothing never becomes final',
                path=exh.literals(wrong[0])[-5:] if wrong else None)
        return
    k = inner.pop()
    loops = [n for n in g.nodes if n.kind == 'for' and any(
        call_name(c) == 'self._handle_task' for c in calls_in(n.ast))]
    if len(loops) != 1:
        raise AnalysisError('UNRECOGNISED-IDIOM %s: per-task loop' % f.where)
    H = loops[0]
    tv = stores_in_target(H.ast.target)[0]
    start, stop, stop_edge = loop_slice(g, H.id)
    ex = count(g, f, tv, start, stop, stop_edge, ('self._handle_task', k))
    bad = None
    for t in ex.terminals:
        if t.node == g.raise_.id:
            continue
        if t.state != 1:
            bad = t
    if bad is not None:
        rep.bad(rid, f, 'tmgr-output:hand-ons=%d' % bad.state,
                'tmgr staging output hands a task with output directives on '
                '%d time(s) on some path (_handle_task hands it on %d time(s) '
                'itself)' % (bad.state, k), f.loc(H.ast),
                history='a DONE task with a TRANSFER output directive is '
                'published as final twice', path=ex.literals(bad)[-5:])
    else:
        rep.ok(rid, f, 'each task with output directives is handed on exactly '
               'once (by _handle_task or by work, not both)', f.loc(H.ast))
    _r05_4b_sorting(prog, rep, rid, f, g, H)


def _r05_4b_sorting(prog, rep, rid, f, g, H):
    """In front of the per-task loop the worker sorts the tasks of the bulk
    into local lists which are consumed afterwards - handed on as a bulk, or
    iterated by the per-task loop (which hands each element on once, see
    above).  Every path through one iteration of a sorting loop must put the
    task into exactly one consumed list (or hand it on directly): none = the
    task is dropped and never becomes final, two = its final state is
    published twice."""
    smap = I.stmt_node_map(g)
    param = [p for p in f.params if p != 'self'][0]
    consumed = {}
    if isinstance(_strip_wrappers(H.ast.iter), ast.Name):
        consumed[_strip_wrappers(H.ast.iter).id] = 'the per-task staging loop'
    for c in calls_in(f.node):
        th = I.handon_thing(c) if I.is_handon(c) else None
        if isinstance(th, ast.Name) and th.id != param and \
                not smap[id(c)].loops:
            consumed.setdefault(th.id, '`%s`' % short(c, 50))
    n_loops = 0
    for F in g.nodes:
        if F.kind != 'for' or F is H or F.loops or \
                not isinstance(F.ast.target, ast.Name):
            continue
        it = _strip_wrappers(F.ast.iter)
        if not (isinstance(it, ast.Name) and it.id == param):
            continue
        x = F.ast.target.id
        body = g.loop_body[F.id]
        puts = {}
        for nid in body:
            n = g.nodes[nid]
            if n.kind != 'stmt':
                continue
            k = len([l for l in _collect_target(n.ast, {x}) if l in consumed])
            k += len([c for c in calls_in(n.ast) if I.is_handon(c) and
                      _names(I.handon_thing(c)) & {x}])
            if k:
                puts[nid] = k
        if not puts:
            continue
        n_loops += 1
        start, stop, stop_edge = loop_slice(g, F.id)

        def transfer(node, edge, st, puts=puts):
            if edge.label == 'exc':
                return None
            return min(2, st + puts.get(node.id, 0))
        ex = Exploration(g, start, 0, transfer, stop=stop, stop_edge=stop_edge)
        ends = [t for t in ex.terminals if t.node == F.id]
        for want, what, hist in (
                (0, 'into none of the lists (%s) which are handed on '
                 'afterwards: the task is dropped and never reaches a final '
                 'state', 'a task of the bulk on that path stays in '
                 'TMGR_STAGING_OUTPUT forever'),
                (2, 'into more than one of the lists (%s) which are handed on '
                 'afterwards (or twice into one): the task is finalized more '
                 'than once - its final state is published twice, or it is '
                 'finalized in the bulk and again (after staging output it '
                 'must not stage) by the per-task loop',
                 'a task which comes back FAILED / CANCELED from the agent: '
                 'two final state notifications, two callbacks')):
            bad = [t for t in ends if t.state == want]
            rep.check(not bad, rid, f, 'no path through the sorting loop puts '
                      '`%s` into %s consumed lists' % (
                          x, 'no' if want == 0 else 'two'),
                      construct='tmgr-output:sorted=%d' % want,
                      message='tmgr staging output: a path through one '
                      'iteration of the loop which sorts the tasks of the bulk '
                      '[%s] puts `%s` ' % (
                          ' ; '.join(ex.literals(bad[0])) if bad else '', x) +
                      what % ', '.join(sorted(consumed)),
                      loc=f.loc(F.ast), history=hist,
                      path=ex.literals(bad[0]) if bad else None)
    # a list of sorted tasks is handed on once
    for lst, how in sorted(consumed.items()):
        if how.startswith('the per-task'):
            continue

        def count(node, edge, st, lst=lst):
            if edge.label == 'exc':
                return None
            if node.kind == 'stmt':
                for c in calls_in(node.ast):
                    if I.is_handon(c) and isinstance(I.handon_thing(c),
                                                     ast.Name) and \
                            I.handon_thing(c).id == lst:
                        st = min(2, st + 1)
            return st
        ex = Exploration(g, g.entry.id, 0, count)
        twice = [t for t in ex.terminals if t.node == g.exit.id and
                 t.state > 1]
        rep.check(not twice, rid, f, 'the sorted list `%s` is handed on at '
                  'most once' % lst, construct='tmgr-output:bulk-twice',
                  message='tmgr staging output hands the list `%s` of sorted '
                  'tasks on more than once on a path [%s]: every task in it '
                  'is finalized twice' % (lst, ' ; '.join(
                      ex.literals(twice[0])) if twice else ''),
                  loc=f.loc(), history='any bulk with a task that needs no '
                  'output staging: two final notifications for it')
    if not n_loops:
        raise AnalysisError('UNRECOGNISED-IDIOM %s: no loop over `%s` which '
                            'sorts the tasks into the lists %s that are handed '
                            'on afterwards' % (f.where, param,
                                               sorted(consumed)))


# ------------------------------------------------------------------------------
# R05.5  FAILED / CANCELED are handed back to the client
#
def _r05_5_recorded(prog, K, f, stmt, depth=0, mapping=None):
    """{(key, text of the value)}: the items a statement records on the
    things: `X[key] = v`, `X.update({key: v, ..})` / `X.update(key=v)` (also
    inside a comprehension), and the same in a method of the class it calls
    (statements of the callee that are not under a condition; parameters are
    replaced by the arguments of the call)"""
    def text(v):
        return _r05_5_text(v, mapping) if mapping else unparse(v)
    out = set()
    for n in walk(stmt):
        if isinstance(n, (ast.Assign, ast.AnnAssign)) and \
                getattr(n, 'value', None) is not None:
            for t in (n.targets if isinstance(n, ast.Assign) else [n.target]):
                if isinstance(t, ast.Subscript) and \
                        isinstance(t.slice, ast.Constant):
                    out.add((t.slice.value, text(n.value)))
        if not isinstance(n, ast.Call):
            continue
        if isinstance(n.func, ast.Attribute) and n.func.attr == 'update':
            if len(n.args) == 1 and isinstance(n.args[0], ast.Dict):
                for k, v in zip(n.args[0].keys, n.args[0].values):
                    if isinstance(k, ast.Constant):
                        out.add((k.value, text(v)))
            for kw in n.keywords:
                if kw.arg is not None:
                    out.add((kw.arg, text(kw.value)))
            continue
        if depth >= 2:
            continue
        h = prog.resolve_call(f, n, K)
        if h is None or h is f or h.cls is None or h.name == f.name:
            continue
        a = h.node.args
        pos = [x.arg for x in a.posonlyargs + a.args]
        if pos and pos[0] in ('self', 'cls') and not any(
                unparse(d) == 'staticmethod' for d in h.node.decorator_list):
            pos = pos[1:]
        bound = {}
        for i, x in enumerate(n.args):
            if i < len(pos) and not isinstance(x, ast.Starred):
                bound[pos[i]] = x
        for kw in n.keywords:
            if kw.arg is not None:
                bound[kw.arg] = kw.value
        if mapping:
            bound = {k: ast.parse(text(v), mode='eval').body
                     for k, v in bound.items()}
        hg = cfg_of(h)
        for hn in hg.stmt_nodes():
            if hn.kind != 'stmt' or hn.ast is None or \
                    isinstance(hn.ast, (ast.FunctionDef, ast.ClassDef)) or \
                    guards(hg, hn.id):
                continue
            out |= _r05_5_recorded(prog, K, h, hn.ast, depth + 1, bound)
    return out


def _r05_5_text(v, mapping):
    import copy
    v = copy.deepcopy(v)

    class Sub(ast.NodeTransformer):
        def visit_Name(self, node):
            return copy.deepcopy(mapping[node.id]) if node.id in mapping \
                else node
    return unparse(Sub().visit(v))


def _r05_5_final_tests(prog, K, f, g, failed, canceled):
    """[(test node, label of the edge taken for FAILED / CANCELED)]: the
    membership tests of `state` against exactly {FAILED, CANCELED}, in either
    polarity (`if state in [..]: <special case>` or the early-return form
    `if state not in [..]: return super().advance(..)`)"""
    out = []
    for n in g.nodes:
        if n.kind == 'test' and isinstance(n.ast, ast.Compare) and \
                len(n.ast.ops) == 1 and \
                isinstance(n.ast.ops[0], (ast.In, ast.NotIn)) and \
                unparse(n.ast.left) == 'state':
            v = prog.fold(f.module, n.ast.comparators[0], K)
            if isinstance(v, (list, tuple, set, frozenset)) and \
                    set(v) == {failed, canceled}:
                out.append((n, 'T' if isinstance(n.ast.ops[0], ast.In)
                            else 'F'))
    return out


def _r05_5_super_calls(node_ast):
    if node_ast is None or isinstance(node_ast, (ast.FunctionDef,
                                                 ast.ClassDef)):
        return []
    return [c for c in calls_in(node_ast) if 'super()' in call_name(c) and
            call_name(c).endswith('.advance')]


def _r05_5_paths(prog, f, g, T, lab):
    """the delegations to BaseComponent.advance on the paths which leave the
    test T by the edge `lab`: [(number of delegations on the path, [(call,
    publish, push, things and state passed on)])] per path that returns; the
    flags are evaluated over the assignments on the path: True / False (a
    constant), 'param' (the caller's value), '?' (anything else)"""
    base = prog.find_method(prog.cls(*COMP), 'advance')
    bpos = [p for p in base.params if p != 'self']
    a = base.node.args
    names = [x.arg for x in a.posonlyargs + a.args]
    dflt = {}
    for x, d in zip(names[len(names) - len(a.defaults):], a.defaults):
        dflt[x] = d
    for x, d in zip(a.kwonlyargs, a.kw_defaults):
        if d is not None:
            dflt[x.arg] = d

    def arg(call, k):
        return kwarg(call, k, bpos.index(k) if k in bpos else None)

    def flag(call, k, st):
        e = arg(call, k)
        if e is None:
            e = dflt.get(k)
        if isinstance(e, ast.Constant) and isinstance(e.value, bool):
            return e.value
        if isinstance(e, ast.Name) and e.id in st:
            return st[e.id]
        return '?'

    def transfer(node, edge, st):
        if node.id == T.id:
            return st if edge.label == lab else None
        if edge.label == 'exc' or node.kind != 'stmt' or node.ast is None:
            return st
        pub, psh, calls = st
        cur = {'publish': pub, 'push': psh}
        for c in _r05_5_super_calls(node.ast):
            passed = all(arg(c, k) is not None and unparse(arg(c, k)) == k
                         for k in ('things', 'state'))
            calls = calls + ((id(c), flag(c, 'publish', cur),
                              flag(c, 'push', cur), passed),)
        n = node.ast
        targets = n.targets if isinstance(n, ast.Assign) else \
            [n.target] if isinstance(n, (ast.AugAssign, ast.AnnAssign)) else []
        for name in [x for t in targets for x in stores_in_target(t)]:
            if name not in cur:
                continue
            v = getattr(n, 'value', None)
            if isinstance(n, ast.Assign) and len(targets) == 1 and \
                    isinstance(targets[0], ast.Name) and \
                    isinstance(v, ast.Constant) and isinstance(v.value, bool):
                cur[name] = v.value
            elif isinstance(n, ast.Assign) and len(targets) == 1 and \
                    isinstance(v, ast.Name) and v.id == name:
                pass
            else:
                cur[name] = '?'
        return (cur['publish'], cur['push'], calls)

    ex = Exploration(g, T.id, ('param', 'param', ()), transfer)
    byid = {id(c): c for c in calls_in(f.node)}
    out = []
    for t in ex.terminals:
        if t.node != g.exit.id:
            continue
        out.append([(byid[c[0]],) + c[1:] for c in t.state[2]])
    return out


def r05_5(prog, rep, rid='R05.5'):
    rep.rule(rid, 'advance() to FAILED/CANCELED records target_state and is '
             'always published, never pushed; the agent side hands the full '
             'task back to the task manager', minimum=4)
    failed = prog.const('states.py', 'FAILED')
    canceled = prog.const('states.py', 'CANCELED')
    for anchor, agent in ((ACOMP, True), (CCOMP, False)):
        K = prog.cls(*anchor)
        f = K.methods.get('advance')
        if f is None:
            raise AnalysisError('%s.advance missing' % K.name)
        rep.saw(f)
        g = cfg_of(f)
        tests = _r05_5_final_tests(prog, K, f, g, failed, canceled)
        rep.check(len(tests) == 1, rid, f, '%s.advance special-cases exactly '
                  'FAILED and CANCELED' % K.name, construct='%s:test' % K.name,
                  message='%s.advance does not test `state in [FAILED, '
                  'CANCELED]`' % K.name, loc=f.loc())
        if len(tests) != 1:
            continue
        T, lab = tests[0]
        other = 'F' if lab == 'T' else 'T'
        keys = set()
        for n in g.stmt_nodes():
            if n.kind != 'stmt' or (T.id, lab) not in guards(g, n.id):
                continue
            if isinstance(n.ast, (ast.FunctionDef, ast.ClassDef)):
                continue
            keys |= _r05_5_recorded(prog, K, f, n.ast)
        # the flags BaseComponent.advance receives on every path of a
        # FAILED / CANCELED advance
        fpaths = _r05_5_paths(prog, f, g, T, lab)
        got = sorted({(c[1], c[2]) for p in fpaths for c in p}, key=str)
        okf = bool(fpaths) and all(len(p) >= 1 for p in fpaths) and \
            got == [(True, False)]
        rep.check(okf, rid, f, '%s.advance forces publish=True, '
                  'push=False for FAILED/CANCELED' % K.name,
                  construct='%s:flags' % K.name, message='%s.advance does not '
                  'force publish=True and push=False for FAILED/CANCELED '
                  '(BaseComponent.advance receives (publish, push) = %s on '
                  '%d path(s), %d path(s) without delegation): a failed '
                  'task is pushed into a queue nobody reads, or its final '
                  'state is never published'
                  % (K.name, got, len(fpaths),
                     len([p for p in fpaths if not p])), loc=f.loc(),
                  history='a task fails in the scheduler: the client never '
                  'learns about it')
        rep.check(('target_state', 'state') in keys, rid, f, '%s.advance '
                  'records target_state = state' % K.name,
                  construct='%s:target_state' % K.name, message='%s.advance '
                  'does not record the final state as target_state on the '
                  'things' % K.name, loc=f.loc())
        if agent:
            okk = ('control', "'tmgr_pending'") in keys and \
                ('$all', 'True') in keys
            rep.check(okk, rid, f, 'the agent hands the full task back to the '
                      "tmgr (control = 'tmgr_pending', $all)",
                      construct='agent:handback', message='AgentComponent.'
                      'advance does not mark a FAILED/CANCELED task for the '
                      "task manager (control='tmgr_pending', $all=True): only "
                      'the bare state is published and the exception / exit '
                      'code never reach the client', loc=f.loc())
        # every path delegates once, passes things / state on and - for the
        # other states - the caller's flags
        opaths = _r05_5_paths(prog, f, g, T, other)
        oks = bool(opaths) and all(
            len(p) == 1 and p[0][3] for p in fpaths + opaths) and all(
            (p[0][1], p[0][2]) == ('param', 'param') for p in opaths)
        rep.check(oks, rid, f, '%s.advance delegates with the adjusted flags'
                  % K.name, construct='%s:super' % K.name, message='%s.'
                  'advance does not pass things/state/publish/push on to '
                  'BaseComponent.advance exactly once on every path' % K.name,
                  loc=f.loc())


# ------------------------------------------------------------------------------
# R05.6  a kill time is armed only for a timeout that was requested
#
EBASE = ('agent/executing/base.py', 'AgentExecutingComponent')


def r05_6(prog, rep, rid='R05.6'):
    rep.rule(rid, 'an entry of the timeout watch list carries a non-zero kill '
             'time only if the corresponding timeout of the description is '
             'non-zero (0 is the "do not kill" sentinel of _to_watcher)',
             minimum=3)
    from ..flow import reaching_defs
    K = prog.cls(*EBASE)
    # the consumer: cancel_task only under a truthy kill time
    fw = prog.find_method(K, '_to_watcher')
    rep.saw(fw)
    g = cfg_of(fw)
    smap = I.stmt_node_map(g)
    kills = [c for c in calls_in(fw.node) if call_name(c) == 'self.cancel_task']
    if not kills:
        raise AnalysisError('UNRECOGNISED-IDIOM %s: no cancel_task call'
                            % fw.where)
    for c in kills:
        n = smap[id(c)]
        gl = [(g.nodes[t].ast, lab) for t, lab in guards(
            g, n.id, start=loop_slice(g, n.loops[-1])[0] if n.loops else None)]
        truthy = [a for a, lab in gl if isinstance(a, ast.Name) and lab == 'T']
        expired = [a for a, lab in gl if isinstance(a, ast.Compare) and
                   len(a.ops) == 1 and isinstance(a.ops[0], (ast.Gt, ast.GtE,
                                                             ast.Lt, ast.LtE))]
        rep.check(bool(truthy) and bool(expired), rid, fw, '_to_watcher kills '
                  'only entries whose kill time is non-zero and has passed',
                  construct='to_watcher:guards', message='_to_watcher calls '
                  'cancel_task without testing that the kill time is set '
                  '(non-zero) and expired', loc=fw.loc(c),
                  history='a task that reported its startup in time and has '
                  'no execution timeout is killed')
    # the producers
    n_prod = 0
    for mname, f in sorted(K.methods.items()):
        g = cfg_of(f)
        smap = I.stmt_node_map(g)
        for c in calls_in(f.node):
            if not (isinstance(c.func, ast.Attribute) and
                    c.func.attr == 'append' and
                    unparse(c.func.value) == 'self._to_tasks' and c.args and
                    isinstance(c.args[0], (ast.List, ast.Tuple)) and
                    len(c.args[0].elts) >= 2):
                continue
            n_prod += 1
            rep.saw(f)
            x = c.args[0].elts[1]
            an = smap[id(c)]
            defs = []
            if isinstance(x, ast.Name):
                defs = reaching_defs(g, x.id, an.id)
                # augmented definitions: every assignment of the name
                defs = [(n, n.ast) for n in g.stmt_nodes() if n.kind == 'stmt'
                        and isinstance(n.ast, (ast.Assign, ast.AugAssign)) and
                        x.id in {t.id for t in (
                            n.ast.targets if isinstance(n.ast, ast.Assign)
                            else [n.ast.target]) if isinstance(t, ast.Name)}]
            else:
                defs = [(an, None)]
            armed = []
            for n, a in defs:
                val = a.value if a is not None else x
                if any(call_name(cc) == 'time.time' for cc in calls_in(val)):
                    armed.append((n, a, val))
            okp = True
            why = ''
            for n, a, val in armed:
                # the operand the clock is added to (the timeout)
                other = None
                if isinstance(a, ast.AugAssign):
                    other = a.target
                elif isinstance(val, ast.BinOp) and isinstance(val.op, ast.Add):
                    lt = any(call_name(cc) == 'time.time'
                             for cc in calls_in(val.left))
                    other = val.right if lt else val.left
                if other is None:
                    raise AnalysisError('UNRECOGNISED-IDIOM %s: kill time `%s`'
                                        % (f.where, short(val, 50)))
                if isinstance(other, ast.BoolOp):
                    forms = {unparse(v) for v in other.values}
                else:
                    forms = {unparse(other)}
                tests = [(t.id, 'T') for t in g.nodes if t.kind == 'test' and
                         unparse(t.ast) in forms]
                r = g.reachable(g.entry.id, skip_edges=tests)
                if n.id in r:
                    okp = False
                    why = short(a if a is not None else val, 60)
            rep.check(okp, rid, f, '%s: the clock is added to the timeout only '
                      'when the timeout is non-zero' % f.qual,
                      construct='%s:arm' % f.qual, message='%s arms a kill '
                      'time with `%s` without testing that the timeout it '
                      'adds is non-zero: the watcher treats 0 as "do not '
                      'kill", now + 0 is a kill time that has already passed'
                      % (f.qual, why), loc=f.loc(c),
                      history='task with startup_timeout=30 and no execution '
                      'timeout reports startup after 1 s: it is killed at '
                      'once and ends CANCELED although nobody asked for it')
    if n_prod < 2:
        raise AnalysisError('R05.6: only %d producers of timeout entries found'
                            % n_prod)


# ------------------------------------------------------------------------------
# R05.7  error discipline of the per-thing `except` handlers of the components
#
# An `except` handler which deals with the thing of the current iteration (or
# with a parameter of the method) by handing it on is a *failure path* of that
# thing.  Structural necessary condition of "an error while handling the task
# makes it FAILED, never DONE":
#   (a) a hand-on in the handler to any state other than FAILED is only
#       allowed to a non-final state and only under a guard which says that the
#       task's own outcome (target_state) is already not DONE,
#   (b) every path through the handler which does not re-raise fails the thing
#       (hand-on as FAILED: directly, through a helper, or by collecting it
#       into a local list whose consumer hands it on as FAILED),
#   (c) a handler which records the exception on the thing does so on every
#       path before it fails it.
#
_BASE_ADVANCE = ('self.advance',)
_COLLECT = ('append', 'extend', 'add', 'insert', 'appendleft')
_OUTCOME_KEYS = ('target_state', 'exit_code')
_deps_cache = {}


def _deps(f):
    k = id(f.node)
    if k not in _deps_cache:
        _deps_cache[k] = Deps(f.node, implicit=False)
    return _deps_cache[k]


def _derived(f, e, V):
    """expression e holds (a container of) one of the variables V"""
    return e is not None and bool(_deps(f).expr_depends(e) & set(V))


def _carries(e, V):
    """e is one of the variables V or a literal list / tuple containing it"""
    if isinstance(e, ast.Name):
        return e.id in V
    if isinstance(e, (ast.List, ast.Tuple)):
        return any(_carries(x, V) for x in e.elts)
    if isinstance(e, ast.Starred):
        return _carries(e.value, V)
    return False


def _bind(callee, call):
    """parameter name -> actual (or default) expression; None if the call
    uses * / ** arguments"""
    a = callee.node.args
    pos = [x.arg for x in a.posonlyargs + a.args]
    names = list(pos)
    if pos and pos[0] in ('self', 'cls'):
        pos = pos[1:]
    out = {}
    for i, x in enumerate(call.args):
        if isinstance(x, ast.Starred):
            return None
        if i < len(pos):
            out[pos[i]] = x
    for k in call.keywords:
        if k.arg is None:
            return None
        out[k.arg] = k.value
    explicit = set(out)
    for name, d in zip(names[len(names) - len(a.defaults):], a.defaults):
        out.setdefault(name, d)
    for x, d in zip(a.kwonlyargs, a.kw_defaults):
        if d is not None:
            out.setdefault(x.arg, d)
    return out, explicit


def _param_value(prog, K, f, name, env):
    """value of the parameter `name` of f at its uses, given the value env[name]
    it is called with: a re-assignment `if not name: name = C` replaces a falsy
    actual; any other re-assignment makes the value unknown"""
    v = env[name]
    g = None
    vals = []
    for n in walk(f.node):
        if isinstance(n, (ast.AugAssign, ast.For)) and \
                name in stores_in_target(n.target):
            return UNKNOWN
        if not isinstance(n, ast.Assign):
            continue
        if not any(name in stores_in_target(t) for t in n.targets):
            continue
        g = g or cfg_of(f)
        nodes = g.nodes_of(n)
        if not nodes:
            return UNKNOWN
        for cn in nodes:
            falsy = False
            for tid, lab in guards(g, cn.id):
                a = g.nodes[tid].ast
                if isinstance(a, ast.Name) and a.id == name and lab == 'F':
                    falsy = True
                if isinstance(a, ast.Compare) and len(a.ops) == 1 and \
                        isinstance(a.left, ast.Name) and a.left.id == name \
                        and isinstance(a.comparators[0], ast.Constant) and \
                        a.comparators[0].value is None and (
                            (isinstance(a.ops[0], ast.Is) and lab == 'T') or
                            (isinstance(a.ops[0], ast.IsNot) and lab == 'F')):
                    falsy = True
            if not falsy:
                return UNKNOWN
        vals.append(prog.fold(f.module, n.value, K))
    if not vals:
        return v
    if v is UNKNOWN:
        return UNKNOWN
    if v:
        return v
    if len(set(map(repr, vals))) == 1:
        return vals[0]
    return UNKNOWN


def _eval_state(prog, K, f, e, env):
    if e is None or (isinstance(e, ast.Constant) and e.value is None):
        return None
    if env and isinstance(e, ast.Name) and e.id in env:
        return _param_value(prog, K, f, e.id, env)
    return prog.fold(f.module, e, K)


def _is_base_advance(call):
    cn = call_name(call)
    return cn in _BASE_ADVANCE or (cn.startswith('super()') and
                                   cn.endswith('.advance'))


def _callee_of(prog, K, f, call, V):
    """(callee, parameters which receive one of V, env) for a call of an own
    method that is given one of V; None otherwise"""
    cn = call_name(call)
    if not cn.startswith('self.') or cn.count('.') != 1 or \
            _is_base_advance(call):
        return None
    callee = prog.resolve_call(f, call, K)
    if callee is None:
        return None
    b = _bind(callee, call)
    if b is None:
        return None
    bound, explicit = b
    Vc = {p for p in explicit if _derived(f, bound[p], V)}
    if not Vc:
        return None
    return callee, Vc, bound, explicit


def _handoffs(prog, K, f, call, V, env=None, depth=0):
    """states in which the call hands on things that derive from V: set of
    folded states (None: the thing's own 'state' entry; UNKNOWN); the empty
    set if the call is not a hand-on of V.  Own methods are followed."""
    if _is_base_advance(call):
        thing = kwarg(call, 'things', 0)
        if not _derived(f, thing, V):
            return set()
        e = kwarg(call, 'state', 1)
        v = _eval_state(prog, K, f, e, env)
        if v is UNKNOWN and isinstance(e, ast.Name) and \
                not (env and e.id in env):
            # a local: every constant it is bound to in this function
            vals = [prog.fold(f.module, n.value, K) for n in walk(f.node)
                    if isinstance(n, ast.Assign) and
                    any(e.id in stores_in_target(t) for t in n.targets)]
            plain = all(isinstance(t, ast.Name) for n in walk(f.node)
                        if isinstance(n, ast.Assign) for t in n.targets
                        if e.id in stores_in_target(t))
            n_store = sum(1 for n in walk(f.node) if isinstance(n, ast.Name)
                          and n.id == e.id and
                          isinstance(n.ctx, (ast.Store, ast.Del)))
            if vals and plain and e.id not in f.params and \
                    n_store == len(vals):
                return set(vals)
        return {v}
    r = _callee_of(prog, K, f, call, V)
    if r is None:
        return set()
    callee, Vc, bound, explicit = r
    if depth >= 3:
        raise AnalysisError('UNRECOGNISED-IDIOM %s: hand-on helpers nested '
                            'deeper than 3 at `%s`' % (f.where,
                                                       short(call, 50)))
    env_c = {}
    for p, x in bound.items():
        if p in Vc:
            continue
        env_c[p] = _eval_state(prog, K, f if p in explicit else callee, x,
                               env if p in explicit else None)
    out = set()
    for cc in calls_in(callee.node):
        out |= _handoffs(prog, K, callee, cc, Vc, env_c, depth + 1)
    return out


def _is_exc_store(t, V):
    # V['exception']: the store is to the thing itself, not to one element of
    # a bulk (`things[0]['exception']`)
    return isinstance(t, ast.Subscript) and \
        isinstance(t.slice, ast.Constant) and t.slice.value == 'exception' \
        and isinstance(t.value, ast.Name) and t.value.id in V


def _records(prog, K, f, a, V, depth=0):
    """statement `a` records the exception on one of V (directly or in an own
    helper method)"""
    if isinstance(a, ast.Assign) and any(_is_exc_store(t, V)
                                         for t in a.targets):
        return True
    if isinstance(a, ast.stmt) and not isinstance(a, (ast.Expr, ast.Assign)):
        return False
    for c in calls_in(a):
        if isinstance(c.func, ast.Attribute) and c.func.attr == 'update' and \
                root_name(c.func.value) in V and \
                isinstance(c.func.value, ast.Name) and c.args and \
                isinstance(c.args[0], ast.Dict) and any(
                    isinstance(k, ast.Constant) and k.value == 'exception'
                    for k in c.args[0].keys):
            return True
        if depth >= 3:
            continue
        r = _callee_of(prog, K, f, c, V)
        if r is None:
            continue
        callee, Vc = r[0], r[1]
        for s in walk(callee.node):
            if isinstance(s, ast.stmt) and _records(prog, K, callee, s, Vc,
                                                    depth + 1):
                return True
            # element by element: `for x in <bulk>: x['exception'] = ..`
            if isinstance(s, ast.For) and isinstance(s.target, ast.Name) and \
                    isinstance(_strip_wrappers(s.iter), ast.Name) and \
                    _strip_wrappers(s.iter).id in Vc and any(
                        _records(prog, K, callee, b, {s.target.id}, depth + 1)
                        for b in s.body):
                return True
    return False


def _helper_ordered(prog, K, h, Vc, failed, depth=0):
    """in the helper method h every FAILED hand-on of its parameter(s) Vc is
    preceded, on every path, by the record of the exception on them"""
    g = cfg_of(h)
    every = {n.id for n in g.nodes}
    recs = {n.id for n in g.nodes if n.kind == 'stmt' and n.ast is not None
            and _records(prog, K, h, n.ast, Vc)}
    rloops = set()
    for v in Vc:
        rloops |= _record_loops(prog, K, h, g, every, {v})
    fails = {}
    for n in g.nodes:
        if n.kind != 'stmt' or n.ast is None:
            continue
        for c in calls_in(n.ast):
            if _handoffs(prog, K, h, c, Vc) == {failed}:
                fails[n.id] = c

    def transfer(node, edge, st):
        if edge.label == 'exc':
            return None
        rec, bad = st
        if node.id in fails and node.id in recs and \
                not _is_base_advance(fails[node.id]):
            r = _callee_of(prog, K, h, fails[node.id], Vc)
            if depth >= 2 or r is None or not _helper_ordered(
                    prog, K, r[0], r[1], failed, depth + 1):
                bad = bad or not rec
            rec = True
            return (rec, bad)
        if node.id in recs or (node.id in rloops and edge.label == 'done'):
            rec = True
        if node.id in fails and not rec:
            bad = True
        return (rec, bad)
    ex = Exploration(g, g.entry.id, (False, False), transfer)
    return not any(t.state[1] for t in ex.terminals)


def _collect_target(a, V):
    """local container (root name) into which statement `a` puts one of V"""
    out = []
    for c in calls_in(a) if not isinstance(a, ast.expr) else []:
        if isinstance(c.func, ast.Attribute) and c.func.attr in _COLLECT \
                and any(_carries(x, V) for x in c.args):
            r = root_name(c.func.value)
            if r and r not in ('self', 'cls'):
                out.append(r)
    if isinstance(a, ast.AugAssign) and isinstance(a.op, ast.Add) and \
            _carries(a.value, V):
        r = root_name(a.target)
        if r and r not in ('self', 'cls'):
            out.append(r)
    if isinstance(a, ast.Assign) and isinstance(a.value, ast.BinOp) and \
            isinstance(a.value.op, ast.Add) and (
                _carries(a.value.right, V) or _carries(a.value.left, V)):
        for t in a.targets:
            r = root_name(t)
            if r and r not in ('self', 'cls'):
                out.append(r)
    return out


def _resolve_names(g, expr, at, depth=3):
    """copy of expr in which local names with exactly one reaching plain
    assignment are replaced by the assigned expression"""
    import copy
    from ..flow import reaching_defs

    class T(ast.NodeTransformer):
        def visit_Name(self, n):
            if not isinstance(n.ctx, ast.Load) or depth <= 0:
                return n
            defs = reaching_defs(g, n.id, at)
            if len(defs) != 1 or defs[0][1] is None:
                return n
            d, v = defs[0]
            if not (d.kind == 'stmt' and isinstance(d.ast, ast.Assign) and
                    len(d.ast.targets) == 1 and
                    isinstance(d.ast.targets[0], ast.Name)):
                return n
            return _resolve_names(g, v, d.id, depth - 1)
    return T().visit(copy.deepcopy(expr))


def _outcome_subject(e, V):
    """e reads the recorded outcome of one of V: t['target_state'] or
    t.get('target_state')"""
    if isinstance(e, ast.Subscript) and isinstance(e.slice, ast.Constant) and \
            e.slice.value == 'target_state' and \
            isinstance(e.value, ast.Name) and e.value.id in V:
        return True
    if isinstance(e, ast.Call) and isinstance(e.func, ast.Attribute) and \
            e.func.attr == 'get' and isinstance(e.func.value, ast.Name) and \
            e.func.value.id in V and len(e.args) == 1 and \
            isinstance(e.args[0], ast.Constant) and \
            e.args[0].value == 'target_state':
        return True
    return False


def _mentions_outcome(e, V):
    return any(isinstance(x, ast.Constant) and x.value in _OUTCOME_KEYS
               for x in ast.walk(e)) and bool(_names(e) & set(V))


def _not_done_guard(prog, K, f, g, nid, start, V, done):
    """True: the node is control dependent (inside the handler) on the task's
    own outcome being something else than DONE; False: it does not depend on
    the outcome at all; AnalysisError: depends on it in an unknown way"""
    from ..flow import const_compare
    okay = False
    for tid, lab in guards(g, nid, start=start):
        atom = _resolve_names(g, g.nodes[tid].ast, tid)
        if not _mentions_outcome(atom, V):
            continue
        cc = None
        if isinstance(atom, ast.Compare) and len(atom.ops) == 1:
            l, r = atom.left, atom.comparators[0]
            if _outcome_subject(l, V) or _outcome_subject(r, V):
                cc = const_compare(prog, f.module, atom, K)
        if cc is None:
            raise AnalysisError('UNRECOGNISED-IDIOM %s: guard `%s` on the '
                                'outcome of the task inside an error handler'
                                % (f.where, short(g.nodes[tid].ast, 60)))
        subj, op, vals = cc
        if lab == 'F':
            op = 'in' if op == 'notin' else 'notin'
        if (op == 'in' and done not in vals and None not in vals) or \
                (op == 'notin' and done in vals):
            okay = True
    return okay


def _handler_region(g, h):
    ids = {id(x) for s in h.ast.body for x in ast.walk(s)}
    return {n.id for n in g.nodes if n.ast is not None and id(n.ast) in ids}


def _thing_vars(prog, g, f, h):
    """candidate names for 'the thing this handler is about': targets of the
    enclosing for loops and the parameters of the method"""
    out = []
    for hid in reversed(h.loops):                     # innermost first
        hn = g.nodes[hid]
        if hn.kind == 'for':
            out += stores_in_target(hn.ast.target)
    out += [p for p in f.params if p not in ('self', 'cls')]
    seen = []
    for x in out:
        if x not in seen:
            seen.append(x)
    return seen


def handler_events(prog, K, f, g, h, tv, failed):
    """{node id: [(kind, states, call)]} for the nodes of the handler body,
    kind in 'failed' / 'other'"""
    V = {tv}
    region = _handler_region(g, h)
    smap = I.stmt_node_map(g)
    ev = {}
    for nid in sorted(region):
        n = g.nodes[nid]
        if n.kind in ('for', 'with', 'test'):
            calls = I.stmt_calls(n) if n.kind != 'test' else calls_in(n.ast)
            a = None
        elif n.kind == 'stmt':
            calls = calls_in(n.ast)
            a = n.ast
        else:
            continue
        for c in calls:
            H = _handoffs(prog, K, f, c, V)
            if H:
                ev.setdefault(nid, []).append(_classify(f, c, H, failed))
        if a is None:
            continue
        for lst in _collect_target(a, V):
            H = set()
            cons = None
            for cc in calls_in(f.node):
                hs = _handoffs(prog, K, f, cc, {lst})
                if not hs:
                    continue
                cn = smap.get(id(cc))
                if cn is None or cn.id in region or \
                        cn.id not in g.reachable(nid):
                    continue
                H |= hs
                cons = cons or cc
            if H:
                k, st, _ = _classify(f, cons, H, failed)
                ev.setdefault(nid, []).append(
                    ('failed-later' if k == 'failed' else k, st, cons))
    return region, ev


def _classify(f, call, H, failed):
    if any(h is UNKNOWN for h in H):
        raise AnalysisError('UNRECOGNISED-IDIOM %s: state of the hand-on `%s` '
                            'inside an error handler is not a constant'
                            % (f.where, short(call, 60)))
    if H == {failed}:
        return ('failed', H, call)
    if failed in H:
        raise AnalysisError('UNRECOGNISED-IDIOM %s: `%s` hands on as FAILED '
                            'and as %s' % (f.where, short(call, 60),
                                           sorted(map(str, H - {failed}))))
    return ('other', H, call)


def _catch_all(h):
    if h.type is None:
        return True
    ts = h.type.elts if isinstance(h.type, ast.Tuple) else [h.type]
    return any(unparse(t).split('.')[-1] in ('Exception', 'BaseException')
               for t in ts)


def _failure_handlers(prog):
    """[(K, f, g, h, tv, region, ev, parts)]: the catch-all handlers of the
    task components which hand the thing they are about on, and the handler
    around the worker call of BaseComponent.work_cb (which fails the bulk
    `things` it was given; parts 'c': only the order record -> hand-on is
    judged there, a stateless bulk is not failed by design and R05.3 decides
    the rest)"""
    cached = getattr(prog, '_c05_failure_handlers', None)
    if cached is not None:
        return cached
    failed = prog.const('states.py', 'FAILED')
    comp = prog.cls(*COMP)
    out = []
    for K, f in sorted(all_methods(prog), key=lambda x: x[1].where):
        if comp not in prog.mro(K) or f.module.rel == 'utils/component.py' \
                or f.module.rel.startswith('pmgr/'):     # pilots, not tasks
            continue
        if not any(isinstance(x, ast.ExceptHandler) for x in walk(f.node)):
            continue
        g = cfg_of(f)
        for h in g.nodes:
            if h.kind != 'handler' or not _catch_all(h.ast):
                # a handler for one named exception type may deal with an
                # expected condition, not with an error
                continue
            for tv in _thing_vars(prog, g, f, h):
                region, ev = handler_events(prog, K, f, g, h, tv, failed)
                if not ev:
                    continue
                out.append((K, f, g, h, tv, region, ev, 'abc'))
                break
    # BaseComponent.work_cb: the handler(s) of the worker call
    f = prog.find_method(comp, 'work_cb')
    g = cfg_of(f)
    for h in g.nodes:
        if h.kind != 'handler' or not _catch_all(h.ast):
            continue
        # the bulk this handler fails: a name handed to a call in the handler
        # (the hand-on itself or a helper method which does it)
        tvs = []
        for nid in sorted(_handler_region(g, h)):
            n = g.nodes[nid]
            if n.kind != 'stmt':
                continue
            for c in calls_in(n.ast):
                for x in list(c.args) + [k.value for k in c.keywords]:
                    if isinstance(x, ast.Name) and x.id not in tvs and \
                            x.id not in ('self', h.ast.name):
                        tvs.append(x.id)
        for tv in tvs:
            try:
                region, ev = handler_events(prog, comp, f, g, h, tv, failed)
            except AnalysisError:
                continue
            if any(kind == 'failed' and any(
                    _carries(x, {tv}) for x in list(call.args) +
                    [k.value for k in call.keywords])
                    for evs in ev.values() for kind, H, call in evs):
                out.append((comp, f, g, h, tv, region, ev, 'c'))
    try:
        prog._c05_failure_handlers = out
    except AttributeError:
        pass
    return out


def r05_7(prog, rep, rid='R05.7'):
    rep.rule(rid, 'an `except` handler that hands the thing of the iteration '
             'on does so as FAILED on every path that does not re-raise (a '
             'hand-on to a non-final state only where the task\'s own outcome '
             'is already not DONE), with the exception recorded first (also '
             'the handler of the worker call in BaseComponent.work_cb)',
             minimum=17)
    failed = prog.const('states.py', 'FAILED')
    done = prog.const('states.py', 'DONE')
    final = set(prog.const('states.py', 'FINAL'))
    n_handlers = 0
    for K, f, g, h, tv, region, ev, parts in _failure_handlers(prog):
        n_handlers += 1
        rep.saw(f)
        _check_handler(prog, rep, rid, K, f, g, h, tv, region, ev,
                       failed, done, final, parts)
    rep.stat('failure_handlers', n_handlers)


def _htype(h):
    return unparse(h.ast.type) if h.ast.type else 'bare'


def _each_loops(g, region, V, hit):
    """{loop head id: element name} of the `for x in <V>` loops inside the
    handler in which every path through one iteration passes a node of
    hit(x): when such a loop is left through its head, the effect has happened
    for every element of V"""
    out = {}
    for nid in region:
        L = g.nodes[nid]
        if L.kind != 'for' or not isinstance(L.ast.target, ast.Name):
            continue
        it = _strip_wrappers(L.ast.iter)
        if not (isinstance(it, ast.Name) and it.id in V):
            continue
        x = L.ast.target.id
        hits = hit(x) & g.loop_body[L.id]
        if not hits:
            continue
        start, stop, stop_edge = loop_slice(g, L.id)
        if start is None:
            continue

        def transfer(node, edge, st, hits=hits):
            if edge.label == 'exc':
                return None
            return st or node.id in hits
        ex = Exploration(g, start, False, transfer, stop=stop,
                         stop_edge=stop_edge)
        ends = [t for t in ex.terminals if t.node == L.id]
        if ends and all(t.state for t in ends):
            out[L.id] = x
    return out


def _elem_loops(g, region, V):
    """{loop head id: element name} of all `for x in <V>` loops in the handler"""
    out = {}
    for nid in region:
        L = g.nodes[nid]
        if L.kind == 'for' and isinstance(L.ast.target, ast.Name):
            it = _strip_wrappers(L.ast.iter)
            if isinstance(it, ast.Name) and it.id in V:
                out[L.id] = L.ast.target.id
    return out


def _record_loops(prog, K, f, g, region, V):
    """heads of the loops over V which record the exception on every element"""
    def hit(x):
        return {m for m in region if g.nodes[m].kind == 'stmt' and
                _records(prog, K, f, g.nodes[m].ast, {x})}
    return set(_each_loops(g, region, V, hit))


def _has_record(prog, K, f, g, region, V):
    return any(g.nodes[nid].kind == 'stmt' and
               _records(prog, K, f, g.nodes[nid].ast, V) for nid in region) \
        or bool(_record_loops(prog, K, f, g, region, V))


def _check_handler(prog, rep, rid, K, f, g, h, tv, region, ev, failed, done,
                   final, parts='abc'):
    V = {tv}
    label = '%s handler(%s)' % (f.qual, _htype(h))
    rec_nodes = {nid for nid in region if g.nodes[nid].kind == 'stmt' and
                 _records(prog, K, f, g.nodes[nid].ast, V)}
    rec_loops = _record_loops(prog, K, f, g, region, V)
    # a helper method which records and fails: the order inside the helper
    late_rec = set()
    for nid in rec_nodes:
        for kind, H, call in ev.get(nid, ()):
            if kind == 'failed' and not _is_base_advance(call):
                r = _callee_of(prog, K, f, call, V)
                if r is not None and not _helper_ordered(prog, K, r[0], r[1],
                                                         failed):
                    late_rec.add(nid)
    # (a) hand-ons to something else than FAILED
    soft = {}
    for nid, evs in ev.items():
        for kind, H, call in evs:
            if kind != 'other' or 'a' not in parts:
                continue
            at = nid
            nonfinal = all(s is not None and s not in final for s in H)
            okay = nonfinal and _not_done_guard(prog, K, f, g, at, h.id, V,
                                                done)
            soft[nid] = okay
            sts = ', '.join(sorted(str(s) for s in H))
            rep.check(okay, rid, f, '%s: `%s` (-> %s) only for a task whose '
                      'own outcome is not DONE' % (label, short(call, 40), sts),
                      construct=call, message='%s: the error handler hands '
                      '`%s` on by `%s` in state %s instead of failing it%s: '
                      'the error that was just caught is swallowed, a task '
                      'whose process exited with 0 goes on with target_state '
                      'DONE and ends DONE although a step handling it raised'
                      % (label, tv, short(call, 70), sts,
                         '' if not nonfinal else ', and no guard of that '
                         'hand-on tests that the task\'s own target_state is '
                         'already not DONE'),
                      loc=f.loc(g.nodes[nid].ast),
                      history='a task with exit code 0 for which the guarded '
                      'work raises (e.g. stage_on_error=True and an output '
                      'file to LINK/COPY/MOVE that does not exist): the '
                      'application sees DONE, exception None')

    # (b), (c): all paths.  The handler may deal with a bulk V element by
    # element (`for x in V: ...`): a record / a FAILED hand-on of x counts for
    # x inside the iteration, and for V once a loop which does it for every
    # element is left through its head.
    elems = _elem_loops(g, region, V)
    enames = set(elems.values())
    erec_nodes = {nid for nid in region if enames and
                  g.nodes[nid].kind == 'stmt' and
                  _records(prog, K, f, g.nodes[nid].ast, enames)}

    def of_elem(call):
        args = list(call.args) + [k.value for k in call.keywords]
        return bool(enames) and any(_carries(a, enames) for a in args) and \
            not any(_carries(a, V) for a in args)
    fail_nodes = {nid for nid, evs in ev.items() if any(
        kind in ('failed', 'failed-later') and of_elem(call)
        for kind, H, call in evs)}
    fail_loops = _each_loops(g, region, V, lambda x: set(fail_nodes))

    def transfer(node, edge, st):
        if edge.label == 'exc':
            return None
        fl, rec, unrec, later, erec = st
        if node.id in elems:
            if edge.label == 'iter':
                erec = False
            elif edge.label == 'done':
                if node.id in rec_loops:
                    rec = True
                if node.id in fail_loops:
                    fl = True
            return (fl, rec, unrec, later, erec)
        if node.id in rec_nodes and node.id not in late_rec:
            rec = True
        if node.id in erec_nodes:
            erec = True
        for kind, H, call in ev.get(node.id, ()):
            if of_elem(call):
                # one element of the bulk: (b) is judged when its loop ends
                if kind == 'failed' and not (rec or erec):
                    unrec = True
                elif kind == 'failed-later':
                    later = True
                continue
            if kind == 'failed':
                if not rec:
                    unrec = True
                fl = True
            elif kind == 'failed-later':
                # collected; failed by the consumer of the list after the
                # handler: the record may follow anywhere in the handler
                later = True
                fl = True
            elif fl is False:
                fl = 'handed-on'        # judged by (a)
        if node.id in late_rec:
            rec = True
        return (fl, rec, unrec, later, erec)

    def stop(nid):
        return nid in (g.exit.id, g.raise_.id) or (
            g.nodes[nid].ast is not None and nid not in region)
    ex = Exploration(g, h.id, (False, False, False, False, False), transfer,
                     stop=stop,
                     stop_edge=lambda e: e.back and e.dst not in region)
    lost = [t for t in ex.terminals if t.node != g.raise_.id and
            t.state[0] is False]
    if 'b' in parts:
        rep.check(not lost, rid, f, '%s: every path fails `%s`' % (label, tv),
                  construct='%s:%s:all-paths-failed' % (_htype(h), tv),
                  message='%s: a path through the error handler leaves '
                  'without handing `%s` on as FAILED [%s]: the task whose '
                  'handling raised is dropped here and never reaches a final '
                  'state' % (label, tv, ' ; '.join(ex.literals(lost[0]))
                             if lost else ''),
                  loc=f.loc(h.ast), path=ex.literals(lost[0]) if lost else None,
                  history='the guarded work raises for one task on that path: '
                  'the task stays in its current state forever, wait_tasks() '
                  'never returns')
    unrec = [t for t in ex.terminals if t.node != g.raise_.id and (
        t.state[2] or (t.state[3] and not (t.state[1] or t.state[4])))]
    if rec_nodes or rec_loops or erec_nodes:
        rep.check(not unrec, rid, f, '%s: the exception is recorded on `%s` '
                  'before it is failed, on every path' % (label, tv),
                  construct='%s:%s:recorded' % (_htype(h), tv),
                  message='%s: a path through the error handler hands `%s` on '
                  'as FAILED before / without recording the exception on it '
                  '[%s]: the state update is published (the full thing is '
                  'serialised) at the hand-on and FAILED is final, so nothing '
                  'recorded later is ever sent: the application sees FAILED '
                  'without explanation'
                  % (label, tv, ' ; '.join(ex.literals(unrec[0]))
                     if unrec else ''), loc=f.loc(h.ast),
                  history='the guarded work raises on that path: '
                  'task.exception is None')
    else:
        rep.info(rid, f, '%s fails `%s` without recording the exception on it '
                 '(no path records it: judged by R05.10)' % (label, tv),
                 f.loc(h.ast))


# ------------------------------------------------------------------------------
# R05.10  a handler that fails its thing explains why
#
# "FAILED if ... any step handling the task raised an error (with exit code /
# exception recorded on the task)": a catch-all handler which hands the thing
# it is about on as FAILED (directly, through a helper, or by collecting it for
# a FAILED hand-on after the loop) must record the exception on it somewhere -
# `t['exception'] = ...`, `t.update({'exception': ...})`, in a helper method,
# or element by element in a loop over the bulk.  (R05.7 (c) decides the
# order of record and hand-on where a record exists.)
#
def r05_10(prog, rep, rid='R05.10'):
    rep.rule(rid, 'a catch-all `except` handler which hands the thing it is '
             'about on as FAILED records the exception on it '
             "(thing['exception'])", minimum=10)
    for K, f, g, h, tv, region, ev, parts in _failure_handlers(prog):
        fails = [call for evs in ev.values() for kind, H, call in evs
                 if kind in ('failed', 'failed-later')]
        if not fails:
            continue
        rep.saw(f)
        V = {tv}
        enames = set(_elem_loops(g, region, V).values())
        rec = _has_record(prog, K, f, g, region, V) or (bool(enames) and any(
            g.nodes[nid].kind == 'stmt' and
            _records(prog, K, f, g.nodes[nid].ast, enames) for nid in region))
        label = '%s handler(%s)' % (f.qual, _htype(h))
        if not rec:
            # a helper of the handler stores an exception somewhere, in a form
            # that is not followed here (a loop over the bulk inside it)
            for nid in region:
                n = g.nodes[nid]
                for c in (calls_in(n.ast) if n.kind == 'stmt' else ()):
                    r = _callee_of(prog, K, f, c, V)
                    if r is not None and any(
                            _records_any(prog, K, r[0], st)
                            for st in r[0].node.body):
                        raise AnalysisError(
                            'UNRECOGNISED-IDIOM %s: the helper `%s` of the '
                            'error handler records an exception, but not in a '
                            'form that is followed to `%s`; decided on the '
                            'view with the helper inlined'
                            % (f.where, short(c, 50), tv))
        rep.check(rec, rid, f, '%s records the exception on the thing it '
                  'fails' % label,
                  construct='handler(%s):fails-without-exception' % _htype(h),
                  message='%s: the error handler hands `%s` on as FAILED (`%s`) '
                  "but no statement of the handler records the exception on it "
                  "(no store to <thing>['exception'], directly or in a helper): "
                  'the task ends FAILED with exception None and exit code '
                  'None - the application cannot tell why it failed (the '
                  'sibling handlers record repr(e) and the trace before '
                  'they fail the task)' % (label, tv, short(fails[0], 60)),
                  loc=f.loc(h.ast),
                  history='the work guarded by this handler raises for a '
                  'task: Task.state is FAILED, Task.exception is None')


# ------------------------------------------------------------------------------
# R05.8  tasks parked until a piece of component state appears are released
#        for every key for which that state is set
#
# A worker which, instead of handing a task on, parks it in `self.<pool>[k]`
# because a test on `self.<state>[k]...` fails, relies on the site which makes
# that test succeed to release the pool entry.  Structural necessary condition:
# the method which stores the awaited state for the keys of a collection D
# releases (reads and hands on) `self.<pool>[k]` for *every* element of D - the
# releasing loop iterates D itself (or the keys of the pool), not a subset of
# D selected by a condition which does not look at the pool.
#
_ELT = '__elt__'
_WRAP = ('list', 'sorted', 'tuple', 'set', 'reversed', 'iter', 'ru.as_list',
         'frozenset')


def _self_chain(e):
    """(attr, [key exprs]) of self.A[k1][k2] / self.A.get(k1, d).get(k2)"""
    keys = []
    while True:
        if isinstance(e, ast.Subscript) and not isinstance(e.slice, ast.Slice):
            keys.append(e.slice)
            e = e.value
        elif isinstance(e, ast.Call) and isinstance(e.func, ast.Attribute) \
                and e.func.attr in ('get', 'pop', 'setdefault') and e.args:
            keys.append(e.args[0])
            e = e.func.value
        else:
            break
    if isinstance(e, ast.Attribute) and isinstance(e.value, ast.Name) and \
            e.value.id == 'self':
        return e.attr, list(reversed(keys))
    return None


def _reads_attr(e, attr):
    return any(isinstance(x, ast.Attribute) and x.attr == attr and
               isinstance(x.value, ast.Name) and x.value.id == 'self'
               for x in ast.walk(e))


def _park_site(a):
    """(pool attr, key expr, thing name) if statement `a` puts a plain name
    into the keyed container self.<pool>[key]"""
    for c in calls_in(a) if isinstance(a, ast.stmt) else []:
        if isinstance(c.func, ast.Attribute) and c.func.attr in _COLLECT and \
                c.args and isinstance(c.args[-1], ast.Name):
            ch = _self_chain(c.func.value)
            if ch and len(ch[1]) == 1:
                return ch[0], ch[1][0], c.args[-1].id
    tgt = val = None
    if isinstance(a, ast.Assign) and len(a.targets) == 1 and \
            isinstance(a.value, ast.BinOp) and isinstance(a.value.op, ast.Add):
        tgt, val = a.targets[0], a.value.right
    elif isinstance(a, ast.AugAssign) and isinstance(a.op, ast.Add):
        tgt, val = a.target, a.value
    if tgt is not None and isinstance(val, ast.List) and len(val.elts) == 1 \
            and isinstance(val.elts[0], ast.Name):
        ch = _self_chain(tgt)
        if ch and len(ch[1]) == 1:
            return ch[0], ch[1][0], val.elts[0].id
    return None


def _falsy_const_expr(v):
    return isinstance(v, ast.Constant) and not v.value


def _awaited(atom, lab):
    """(state attr, constant key tail) if the branch (atom, lab) is taken when
    self.<attr>[k]<tail> is missing / falsy"""
    if isinstance(atom, ast.UnaryOp) and isinstance(atom.op, ast.Not):
        return _awaited(atom.operand, 'F' if lab == 'T' else 'T')
    # `e[<tail>] if e else None` / `e and e[<tail>]` (e the entry
    # self.<attr>[k]): falsy when the entry or its <tail> is missing - the
    # most specific test (longest constant key path) is the awaited one
    parts = None
    if isinstance(atom, ast.IfExp) and _falsy_const_expr(atom.orelse):
        parts = [atom.test, atom.body]
    elif isinstance(atom, ast.BoolOp) and isinstance(atom.op, ast.And):
        parts = list(atom.values)
    if parts is not None:
        if lab != 'F':
            return None
        aws = [_awaited(p, 'F') for p in parts]
        if any(a is None for a in aws) or len({a[0] for a in aws}) != 1:
            return None
        return max(aws, key=lambda a: len(a[1]))
    ch = _self_chain(atom)
    if ch and ch[1] and lab == 'F':
        tail = []
        for k in reversed(ch[1][1:]):
            if not isinstance(k, ast.Constant):
                return None
            tail.insert(0, k.value)
        return ch[0], tuple(tail)
    if isinstance(atom, ast.Compare) and len(atom.ops) == 1:
        ch = _self_chain(atom.comparators[0])
        if ch and not ch[1] and (
                (isinstance(atom.ops[0], ast.In) and lab == 'F') or
                (isinstance(atom.ops[0], ast.NotIn) and lab == 'T')):
            return ch[0], ()
    return None


def _awaited_local(g, atom, tid, lab):
    """_awaited for a test on a local which several plain assignments reach
    (`v = e['x'] if e else None`, or the same as if / else): the branch is
    taken when the local is falsy - every definition is either a falsy
    constant made under a failed test on self.<attr>[k]..., or a read of
    self.<attr>[k]<tail>; the longest <tail> is the awaited one.
    -> ((attr, tail), shown atom) or (None, atom)"""
    from ..flow import reaching_defs
    a = atom
    while isinstance(a, ast.UnaryOp) and isinstance(a.op, ast.Not):
        a = a.operand
        lab = 'F' if lab == 'T' else 'T'
    if not isinstance(a, ast.Name) or lab != 'F':
        return None, atom
    defs = reaching_defs(g, a.id, tid)
    if len(defs) < 2:
        return None, atom
    here = set(guards(g, tid))
    aws = []
    real = 0
    shown = atom
    for d, v in defs:
        if v is None or not (d.kind == 'stmt' and
                             isinstance(d.ast, ast.Assign) and
                             len(d.ast.targets) == 1):
            return None, atom
        extra = [(t, l) for t, l in guards(g, d.id) if (t, l) not in here]
        if _falsy_const_expr(v):
            # why the local got the falsy constant (a preset without a
            # condition of its own stays when the other definitions are
            # not reached: their guards say why)
            for t, l in extra:
                aw = _awaited(_resolve_names(g, g.nodes[t].ast, t), l)
                if aw is None:
                    return None, atom
                aws.append(aw)
        else:
            real += 1
            # the local keeps an earlier (falsy) value when this definition
            # is not reached
            for t, l in extra:
                aw = _awaited(_resolve_names(g, g.nodes[t].ast, t),
                              'F' if l == 'T' else 'T')
                if aw is None:
                    return None, atom
                aws.append(aw)
            rv = _resolve_names(g, v, d.id)
            aw = _awaited(rv, 'F')
            if aw is None:
                return None, atom
            aws.append(aw)
            if len(aw[1]) >= max(len(x[1]) for x in aws):
                shown = rv
    if not aws or not real or len({x[0] for x in aws}) != 1:
        return None, atom
    return max(aws, key=lambda x: len(x[1])), shown


def parking_sites(prog):
    """[(K, f, cfg node, pool, thing, (state attr, tail), atom text)]"""
    comp = prog.cls(*COMP)
    final = set(prog.const('states.py', 'FINAL'))
    out = []
    seen = set()
    for K, f in sorted(all_methods(prog), key=lambda x: x[1].where):
        if comp not in prog.mro(K) or f.module.rel == 'utils/component.py' \
                or id(f.node) in seen:
            continue
        seen.add(id(f.node))
        if not any(isinstance(x, ast.Attribute) and x.attr in _COLLECT
                   for x in walk(f.node)) and not any(
                       isinstance(x, ast.AugAssign) for x in walk(f.node)):
            continue
        g = None
        for s in walk(f.node):
            if not isinstance(s, (ast.Expr, ast.Assign, ast.AugAssign)):
                continue
            ps = _park_site(s)
            if ps is None:
                continue
            pool, key, thing = ps
            g = g or cfg_of(f)
            smap = I.stmt_node_map(g)
            pn = smap.get(id(s))
            if pn is None:
                continue
            # the alternative: the same thing handed on to a non-final state
            alts = []
            for c in calls_in(f.node):
                if not (_is_base_advance(c) or I.is_handon(c)):
                    continue
                th = I.handon_thing(c)
                if not _carries(th, {thing}):
                    continue
                H = _handoffs(prog, K, f, c, {thing})
                if H and all(h is not UNKNOWN and h is not None and
                             h not in final for h in H) and id(c) in smap:
                    alts.append(smap[id(c)])
            if not alts:
                continue
            # what the hand-on requires and the parking branch lacks: the
            # task waits until all of it holds; of several tests on one
            # attribute the most specific one (longest constant key path) is
            # the one whose store completes the condition
            pg = set(guards(g, pn.id))
            for an in alts:
                found = {}
                for tid, lab in guards(g, an.id):
                    if (tid, lab) in pg:
                        continue
                    atom = _resolve_names(g, g.nodes[tid].ast, tid)
                    aw = _awaited(atom, 'T' if lab == 'F' else 'F')
                    if aw is None:
                        aw, atom = _awaited_local(g, atom, tid,
                                                  'T' if lab == 'F' else 'F')
                    if aw is None:
                        continue
                    old = found.get(aw[0])
                    if old is None or len(aw[1]) > len(old[0][1]):
                        found[aw[0]] = (aw, unparse(atom))
                if len(found) > 1:
                    raise AnalysisError(
                        'UNRECOGNISED-IDIOM %s: `%s` is parked in self.%s '
                        'until several pieces of state appear (%s)'
                        % (f.where, thing, pool, sorted(found)))
                for aw, text in found.values():
                    out.append((K, f, pn, pool, thing, aw, text))
    # one entry per (function, pool, awaited state)
    uniq = {}
    for r in out:
        uniq.setdefault((id(r[1].node), r[3], r[5]), r)
    return list(uniq.values())


def _entry_key(prog, C, f, g, name, at, state, depth=0):
    """key expression k if the local `name` holds the entry self.<state>[k]
    at node `at` whatever definition reaches it: read from the container
    (`self.<state>[k]` / `.get(k)`), answered by an accessor method of the
    class (`self._entry(k)`, which returns the entry of its parameter on every
    path), or created and stored as `self.<state>[k] = name` before `at`"""
    from ..flow import reaching_defs
    keys = []
    defs = reaching_defs(g, name, at)
    if not defs:
        return None
    for dn, dv in defs:
        if dv is None:
            return None
        k = None
        ch = _self_chain(dv)
        if ch and ch[0] == state and len(ch[1]) == 1:
            k = ch[1][0]
        elif isinstance(dv, ast.Call) and depth < 2 and \
                call_name(dv).startswith('self.') and \
                call_name(dv).count('.') == 1:
            h = prog.resolve_call(f, dv, C)
            b = _bind(h, dv) if h is not None and h.cls is not None else None
            p = _accessor_param(prog, C, h, state, depth + 1) \
                if b is not None else None
            if p is not None and p in b[0]:
                k = b[0][p]
        else:
            # created here, registered on the way to `at`
            for m in g.nodes:
                if m.kind == 'stmt' and isinstance(m.ast, ast.Assign) and \
                        isinstance(m.ast.value, ast.Name) and \
                        m.ast.value.id == name and \
                        m.id in g.reachable(dn.id, no_back=True) and \
                        must_pass(g, dn.id, at, [m.id]):
                    for t in m.ast.targets:
                        ch = _self_chain(t)
                        if ch and ch[0] == state and len(ch[1]) == 1:
                            k = ch[1][0]
        if k is None:
            return None
        keys.append(k)
    if len({unparse(k) for k in keys}) != 1:
        return None
    return keys[0]


def _accessor_param(prog, C, h, state, depth):
    """name of the parameter p of method h if every `return` of h answers the
    entry self.<state>[p]"""
    g = cfg_of(h)
    rets = [n for n in g.stmt_nodes() if n.kind == 'stmt' and
            isinstance(n.ast, ast.Return)]
    if not rets:
        return None
    ps = set()
    for n in rets:
        v = n.ast.value
        k = None
        if isinstance(v, ast.Name):
            k = _entry_key(prog, C, h, g, v.id, n.id, state, depth)
        elif v is not None:
            ch = _self_chain(v)
            if ch and ch[0] == state and len(ch[1]) == 1:
                k = ch[1][0]
        if not (isinstance(k, ast.Name) and k.id in h.params):
            return None
        ps.add(k.id)
    return ps.pop() if len(ps) == 1 else None


def enabling_stores(prog, K, state, tail):
    """[(class, f, stmt, key expr)]: stores which set self.<state>[k]<tail>
    to something that is not a falsy constant"""
    out = []
    seen = set()
    fam = list(prog.mro(K)) + [c for c in prog.subclasses(K)]
    for C in fam:
        for mname, f in sorted(C.methods.items()):
            if id(f.node) in seen:
                continue
            seen.add(id(f.node))
            for s in walk(f.node):
                if not isinstance(s, ast.Assign):
                    continue
                for t in s.targets:
                    ch = _self_chain(t)
                    if ch is None and isinstance(t, ast.Subscript) and \
                            isinstance(root_name(t), str) and \
                            _reads_attr(f.node, state):
                        # entry = self.<state>[k]; entry[<tail>] = v
                        g = cfg_of(f)
                        sn = I.stmt_node_map(g).get(id(s))
                        if sn is not None:
                            ch = _self_chain(ast.Subscript(
                                value=_resolve_names(g, t.value, sn.id),
                                slice=t.slice, ctx=ast.Load()))
                    if ch is None and isinstance(t, ast.Subscript) and \
                            isinstance(t.value, ast.Name):
                        # entry = self._accessor(k) / entry created and
                        # stored as self.<state>[k] on the way: entry[<tail>]
                        g = cfg_of(f)
                        sn = I.stmt_node_map(g).get(id(s))
                        k = _entry_key(prog, C, f, g, t.value.id, sn.id,
                                       state) if sn is not None else None
                        if k is not None:
                            ch = (state, [k, t.slice])
                    if not ch or ch[0] != state or not ch[1] or \
                            not isinstance(t, ast.Subscript):
                        continue
                    keys = ch[1]
                    tl = tuple(k.value if isinstance(k, ast.Constant) else
                               None for k in keys[1:])
                    if tl == tail and not _falsy_const_expr(s.value):
                        if not tail and isinstance(keys[0], ast.Constant):
                            continue
                        out.append((C, f, s, keys[0]))
                    elif len(keys) == 1 and len(tail) == 1 and \
                            isinstance(s.value, ast.Dict):
                        for k, v in zip(s.value.keys, s.value.values):
                            if isinstance(k, ast.Constant) and \
                                    k.value == tail[0] and \
                                    not _falsy_const_expr(v):
                                out.append((C, f, s, keys[0]))
            # self.<state>[k].update({<tail>: v}) / .update(<tail>=v)
            for c in calls_in(f.node) if len(tail) == 1 else []:
                if not (isinstance(c.func, ast.Attribute) and
                        c.func.attr == 'update'):
                    continue
                ch = _self_chain(c.func.value)
                if ch is None and isinstance(c.func.value, ast.Name) and \
                        _reads_attr(f.node, state):
                    g = cfg_of(f)
                    sn = I.stmt_node_map(g).get(id(c))
                    if sn is not None:
                        ch = _self_chain(_resolve_names(g, c.func.value,
                                                        sn.id))
                if not ch or ch[0] != state or len(ch[1]) != 1:
                    continue
                vals = [k.value for k in c.keywords if k.arg == tail[0]]
                if c.args and isinstance(c.args[0], ast.Dict):
                    vals += [v for k, v in zip(c.args[0].keys,
                                               c.args[0].values)
                             if isinstance(k, ast.Constant) and
                             k.value == tail[0]]
                if any(not _falsy_const_expr(v) for v in vals):
                    st = I.enclosing_stmt_node(cfg_of(f), c)
                    if st is not None and isinstance(st.ast, ast.stmt):
                        out.append((C, f, st.ast, ch[1][0]))
    return out


def _strip_wrappers(e):
    while True:
        if isinstance(e, ast.Call) and dotted(e.func) in _WRAP and \
                len(e.args) == 1:
            e = e.args[0]
        elif isinstance(e, ast.Subscript) and isinstance(e.slice, ast.Slice) \
                and e.slice.lower is None and e.slice.upper is None:
            e = e.value
        elif isinstance(e, ast.Call) and isinstance(e.func, ast.Attribute) \
                and e.func.attr == 'copy' and not e.args:
            e = e.func.value
        else:
            return e


def _subst(expr, name, repl):
    import copy

    class T(ast.NodeTransformer):
        def visit_Name(self, n):
            if n.id == name and isinstance(n.ctx, ast.Load):
                return copy.deepcopy(repl)
            return n
    return T().visit(copy.deepcopy(expr))


class _Domain:
    """what a loop iterates: elements `elt` (an expression over the name _ELT)
    for each _ELT in the collection `base` (resolved source text, or 'POOL'
    for the keys of the pool itself), restricted by `filters`
    [(atom ast, label, cfg)]"""

    def __init__(self, base, elt=None, filters=None):
        self.base = base
        self.elt = elt if elt is not None else ast.Name(id=_ELT,
                                                        ctx=ast.Load())
        self.filters = filters or []


def _domain(f, g, e, at, pool, depth=0):
    from ..flow import reaching_defs
    if depth > 4:
        raise AnalysisError('UNRECOGNISED-IDIOM %s: iteration domain nested '
                            'too deeply' % f.where)
    e = _strip_wrappers(e)
    # the pool itself
    x = e
    if isinstance(x, ast.Call) and isinstance(x.func, ast.Attribute) and \
            x.func.attr in ('keys', 'items') and not x.args:
        x = _strip_wrappers(x.func.value)
    ch = _self_chain(x)
    if ch and ch[0] == pool and not ch[1]:
        return _Domain('POOL')
    if isinstance(e, (ast.ListComp, ast.SetComp, ast.GeneratorExp,
                      ast.DictComp)):
        if len(e.generators) != 1 or \
                not isinstance(e.generators[0].target, ast.Name):
            raise AnalysisError('UNRECOGNISED-IDIOM %s: comprehension `%s`'
                                % (f.where, short(e, 50)))
        gen = e.generators[0]
        inner = _domain(f, g, gen.iter, at, pool, depth + 1)
        if inner.base == 'POOL':
            return inner
        elt = _subst(_resolve_names(g, e.key if isinstance(e, ast.DictComp)
                                    else e.elt, at), gen.target.id, inner.elt)
        fl = list(inner.filters)
        for c in gen.ifs:
            fl.append((_subst(c, gen.target.id, inner.elt), 'T'))
        return _Domain(inner.base, elt, fl)
    if isinstance(e, ast.Name):
        defs = reaching_defs(g, e.id, at)
        if len(defs) == 1 and defs[0][1] is not None and \
                defs[0][0].kind == 'stmt' and \
                isinstance(defs[0][0].ast, ast.Assign) and \
                len(defs[0][0].ast.targets) == 1 and \
                isinstance(defs[0][0].ast.targets[0], ast.Name):
            d, v = defs[0]
            if _is_empty_ctor(v):
                return _built_list(f, g, e.id, d, pool, depth)
            return _domain(f, g, v, d.id, pool, depth + 1)
        return _Domain(unparse(e))
    return _Domain(unparse(_resolve_names(g, e, at)))


def _is_empty_ctor(v):
    if isinstance(v, (ast.List, ast.Dict, ast.Set, ast.Tuple)):
        return not (getattr(v, 'elts', None) or getattr(v, 'keys', None))
    return isinstance(v, ast.Call) and dotted(v.func) in ('list', 'set') and \
        not v.args and not v.keywords


def _built_list(f, g, name, dnode, pool, depth):
    """domain of a local list which starts empty and is filled by appends in
    one loop"""
    adds = []
    for n in g.nodes:
        if n.kind != 'stmt':
            continue
        a = n.ast
        if isinstance(a, ast.Expr) and isinstance(a.value, ast.Call) and \
                isinstance(a.value.func, ast.Attribute) and \
                a.value.func.attr in ('append', 'add') and \
                isinstance(a.value.func.value, ast.Name) and \
                a.value.func.value.id == name and len(a.value.args) == 1:
            adds.append((n, a.value.args[0]))
        elif isinstance(a, ast.AugAssign) and isinstance(a.target, ast.Name) \
                and a.target.id == name and isinstance(a.value, ast.List) and \
                len(a.value.elts) == 1:
            adds.append((n, a.value.elts[0]))
        elif name in {x.id for x in walk(a) if isinstance(x, ast.Name) and
                      isinstance(x.ctx, ast.Store)} and n is not dnode:
            raise AnalysisError('UNRECOGNISED-IDIOM %s: list `%s` is rebound'
                                % (f.where, name))
    heads = {n.loops[-1] if n.loops else None for n, _ in adds}
    if not adds or len(heads) != 1 or None in heads:
        raise AnalysisError('UNRECOGNISED-IDIOM %s: how the list `%s` is '
                            'filled' % (f.where, name))
    H = g.nodes[heads.pop()]
    if H.kind != 'for' or not isinstance(H.ast.target, ast.Name) or \
            H.id in dnode.loops:
        raise AnalysisError('UNRECOGNISED-IDIOM %s: loop that fills `%s`'
                            % (f.where, name))
    inner = _domain(f, g, H.ast.iter, H.id, pool, depth + 1)
    if inner.base == 'POOL':
        return inner
    elts = {unparse(_subst(_resolve_names(g, x, n.id), H.ast.target.id,
                           inner.elt)) for n, x in adds}
    if len(elts) != 1:
        raise AnalysisError('UNRECOGNISED-IDIOM %s: elements of `%s`'
                            % (f.where, name))
    n0, x0 = adds[0]
    elt = _subst(_resolve_names(g, x0, n0.id), H.ast.target.id, inner.elt)
    # is an element added on every iteration?
    start = loop_slice(g, H.id)[0]
    addn = {n.id for n, _ in adds}
    r = g.reachable(start, skip_nodes=addn,
                    labels={'next', 'T', 'F', 'iter', 'done'})
    r &= g.loop_body[H.id] | {start}
    skipping = any(e.dst == H.id and e.label != 'exc' for nid in r
                   for e in g.succ[nid] if nid not in addn)
    fl = list(inner.filters)
    if skipping:
        cond = []
        for n, _ in adds:
            for tid, lab in guards(g, n.id, start=start):
                cond.append((_subst(_resolve_names(g, g.nodes[tid].ast, tid),
                                    H.ast.target.id, inner.elt), lab))
        if not cond:
            raise AnalysisError('UNRECOGNISED-IDIOM %s: condition under which '
                                '`%s` is filled' % (f.where, name))
        fl += cond
    return _Domain(inner.base, elt, fl)


def _body_guards(g, node, L, elt):
    """[(atom, label)]: the branch conditions inside one iteration of the for
    loop L under which `node` is reached, the loop variable replaced by the
    element expression"""
    if L is None:
        return []
    start = loop_slice(g, L.id)[0]
    out = []
    for tid, lab in guards(g, node.id, start=start):
        if tid not in g.loop_body[L.id]:
            continue
        a = _resolve_names(g, g.nodes[tid].ast, tid)
        if isinstance(L.ast.target, ast.Name):
            a = _subst(a, L.ast.target.id, elt)
        out.append((a, lab))
    return out


def _pool_loop_ok(ef, g, readn, RL, edom, pool):
    """a loop over the keys of the pool itself releases every parked key; a
    selection inside its body may only look at the pool or at membership in
    the collection whose keys were set"""
    for a, lab in _body_guards(g, readn, RL, ast.Name(id=_ELT,
                                                      ctx=ast.Load())):
        if _reads_attr(a, pool):
            continue
        if isinstance(a, ast.Compare) and len(a.ops) == 1 and \
                isinstance(a.ops[0], (ast.In, ast.NotIn)) and \
                edom is not None:
            d = _domain(ef, g, a.comparators[0], readn.id, pool)
            if d.base == edom.base and not d.filters:
                continue
        raise AnalysisError('UNRECOGNISED-IDIOM %s: selection `%s` inside the '
                            'loop over self.%s' % (ef.where, short(a, 50),
                                                   pool))
    return True


def _key_shape(g, key, at, loop, dom):
    """the key expression at cfg node `at` in terms of one element of the
    domain's base collection"""
    e = _resolve_names(g, key, at)
    if loop is not None:
        t = loop.ast.target
        if not isinstance(t, ast.Name):
            return None
        e = _subst(e, t.id, dom.elt)
    return unparse(e)


def _filter_verdict(f, atom, lab, pool):
    """'pool': the filter keeps exactly the keys that have a pool entry;
    'subset': the filter does not look at the pool"""
    if not _reads_attr(atom, pool):
        return 'subset'
    ch = _self_chain(atom)
    if ch and ch[0] == pool and len(ch[1]) == 1 and lab == 'T':
        return 'pool'
    if isinstance(atom, ast.Compare) and len(atom.ops) == 1:
        ch = _self_chain(_strip_wrappers(atom.comparators[0]))
        if ch and ch[0] == pool and not ch[1] and (
                (isinstance(atom.ops[0], ast.In) and lab == 'T') or
                (isinstance(atom.ops[0], ast.NotIn) and lab == 'F')):
            return 'pool'
    raise AnalysisError('UNRECOGNISED-IDIOM %s: selection `%s` of the keys for '
                        'which self.%s is released' % (f.where,
                                                       short(atom, 60), pool))


def _pool_reads(node_ast, pool):
    """key expressions of reads self.<pool>[k] / .get(k) / .pop(k)"""
    out = []
    for x in ast.walk(node_ast):
        if isinstance(x, (ast.Subscript, ast.Call)):
            if isinstance(x, ast.Subscript) and \
                    not isinstance(x.ctx, ast.Load):
                continue
            ch = _self_chain(x)
            if ch and ch[0] == pool and len(ch[1]) == 1:
                if isinstance(x, ast.Call) and x.func.attr == 'setdefault':
                    continue
                out.append(ch[1][0])
    return out


def release_sites(prog, K, f, g, pool, depth=0):
    """[(cfg node of the hand-on in f, innermost for loop or None, key expr,
    cfg node of the pool read, cfg for key resolution, sub)]: hand-ons in f of
    things read from self.<pool>[key].  A release inside an own method called
    from f is reported at the call, sub=(callee, its sites)."""
    smap = I.stmt_node_map(g)
    dep = _deps(f)
    loc = 'self.' + pool
    out = []
    reads = []
    aliases = {t.id for s in walk(f.node) if isinstance(s, ast.Assign)
               for t in s.targets if isinstance(t, ast.Name) and
               (_self_chain(_strip_wrappers(s.value)) or ('', [0]))[0] == pool
               and not _self_chain(_strip_wrappers(s.value))[1]}
    for n in g.nodes:
        if n.kind == 'stmt' and n.ast is not None:
            a = n.ast
            if aliases and _names(a) & aliases and not _reads_attr(a, pool):
                a = _resolve_names(g, a, n.id)
            for k in _pool_reads(a, pool):
                reads.append((n, k))
    for c in calls_in(f.node):
        n = smap.get(id(c))
        if n is None:
            continue
        if _is_base_advance(c) or I.is_handon(c):
            th = I.handon_thing(c)
            if th is None or loc not in dep.expr_depends(th):
                continue
            # the read that feeds it: in the same innermost loop
            cands = [(rn, k) for rn, k in reads
                     if (rn.loops[-1:] == n.loops[-1:]) and
                     (rn.id == n.id or n.id in g.reachable(rn.id))]
            if not cands:
                raise AnalysisError('UNRECOGNISED-IDIOM %s: `%s` hands on '
                                    'content of self.%s, but the keyed read '
                                    'that feeds it was not found'
                                    % (f.where, short(c, 50), pool))
            rn, k = cands[0]
            L = g.nodes[n.loops[-1]] if n.loops else None
            out.append((n, L, k, rn, None))
        elif depth == 0 and call_name(c).startswith('self.') and \
                call_name(c).count('.') == 1:
            callee = prog.resolve_call(f, c, K)
            if callee is None or callee.node is f.node or \
                    not _reads_attr(callee.node, pool):
                continue
            gc = cfg_of(callee)
            sub = release_sites(prog, K, callee, gc, pool, depth + 1)
            if sub:
                L = g.nodes[n.loops[-1]] if n.loops else None
                out.append((n, L, None, n, (callee, gc, sub, c)))
    return out


def r05_8(prog, rep, rid='R05.8'):
    rep.rule(rid, 'where a worker parks tasks in self.<pool>[k] until '
             'self.<state>[k] is set, the method that sets it releases the '
             'pool entry of every key it sets (the releasing loop iterates '
             'the same collection, not a subset chosen without looking at '
             'the pool)', minimum=1)
    sites = parking_sites(prog)
    rep.stat('parking_sites', len(sites))
    for K, pf, pn, pool, thing, (state, tail), atom in sites:
        rep.saw(pf)
        what = 'self.%s[k]%s' % (state, ''.join('[%r]' % t for t in tail))
        ens = enabling_stores(prog, K, state, tail)
        if not ens:
            rep.info(rid, pf, '%s parks `%s` in self.%s until %s is set, but '
                     'no store of it was found' % (pf.qual, thing, pool, what),
                     pf.loc(pn.ast))
            continue
        for C, ef, es, ekey in ens:
            rep.saw(ef)
            _check_release(prog, rep, rid, C, ef, es, ekey, pf, pn, pool,
                           thing, what, atom, state, tail)


def _placeholder_sites(prog, C, state, tail, ef):
    """methods (other than ef) which create self.<state>[k] with a falsy
    <tail> entry"""
    out = []
    if len(tail) != 1:
        return out
    for K in list(prog.mro(C)) + list(prog.subclasses(C)):
        for mname, f in sorted(K.methods.items()):
            if f.node is ef.node:
                continue
            for s in walk(f.node):
                if isinstance(s, ast.Assign) and isinstance(s.value, ast.Dict) \
                        and any((_self_chain(t) or ('', []))[0] == state and
                                len(_self_chain(t)[1]) == 1
                                for t in s.targets
                                if isinstance(t, ast.Subscript)):
                    for k, v in zip(s.value.keys, s.value.values):
                        if isinstance(k, ast.Constant) and k.value == tail[0] \
                                and _falsy_const_expr(v) and \
                                f.qual not in out:
                            out.append(f.qual)
    return out


def _check_release(prog, rep, rid, C, ef, es, ekey, pf, pn, pool, thing, what,
                   atom, what_state=None, what_tail=()):
    g = cfg_of(ef)
    smap = I.stmt_node_map(g)
    en = smap.get(id(es))
    if en is None:
        raise AnalysisError('UNRECOGNISED-IDIOM %s: store `%s`'
                            % (ef.where, short(es, 50)))
    label = '%s: `%s`' % (ef.qual, short(es, 50))
    parked = ('%s parks `%s` in self.%s[k] when `%s` is missing / empty'
              % (pf.qual, thing, pool, atom))
    ph = _placeholder_sites(prog, C, what_state, what_tail, ef)
    hist = ('the entry for key p1 exists without it (%s), a task naming p1 '
            'arrives and is parked in '
            'self.%s[p1], then this method sets %s for p1 without releasing '
            'self.%s[p1]: the task never leaves its scheduling state, '
            'wait_tasks() blocks forever' % (
                'created e.g. by ' + ', '.join(ph) if ph else
                'e.g. created empty by another site', pool, what, pool))
    rels = release_sites(prog, C, ef, g, pool)
    # only releases that follow the store
    rels = [r for r in rels if r[0].id in g.reachable(en.id) or
            (en.loops and r[0].loops[-1:] == en.loops[-1:])]
    if not rels:
        reads_pool = _reads_attr(ef.node, pool) or any(
            _reads_attr(cal.node, pool) for cal in (
                prog.resolve_call(ef, c, C) for c in calls_in(ef.node)
                if call_name(c).startswith('self.') and
                call_name(c).count('.') == 1) if cal is not None and
            cal.node is not ef.node)
        if reads_pool:
            raise AnalysisError('UNRECOGNISED-IDIOM %s: the method uses '
                                'self.%s after `%s`, but no hand-on of its '
                                'content was recognised' % (
                                    ef.where, pool, short(es, 50)))
        rep.bad(rid, ef, '%s:release-of-%s' % (short(es, 40), pool),
                '%s sets %s, but the method never hands on the tasks parked '
                'in self.%s for that key afterwards (%s): they are never '
                'released' % (label, what, pool, parked), ef.loc(es),
                history=hist)
        return
    EL = g.nodes[en.loops[-1]] if en.loops else None
    if EL is not None and EL.kind != 'for':
        raise AnalysisError('UNRECOGNISED-IDIOM %s: store inside a while loop'
                            % ef.where)
    edom0 = edom = None
    if EL is not None:
        edom0 = _domain(ef, g, EL.ast.iter, EL.id, pool)
        edom = _Domain(edom0.base, edom0.elt, edom0.filters +
                       _body_guards(g, en, EL, edom0.elt))
    ekey_s = _key_shape(g, ekey, en.id, EL, edom)
    problems = []
    covered = False
    for rn, RL, rkey, readn, sub in rels:
        try:
            v = _covers(prog, C, ef, g, en, EL, edom, edom0, ekey_s, rn, RL,
                        rkey, readn, sub, pool)
        except AnalysisError as e:
            problems.append(('error', str(e)))
            continue
        if v is True:
            # the release is reached on every normal path after the store
            src = EL.id if EL is not None and RL is not EL else en.id
            via = [RL.id if RL is not None and RL is not EL else rn.id]
            if RL is EL or must_pass(g, src, g.exit.id, via, skip_exc=True) \
                    or _leaves_by_done(g, EL, via):
                covered = True
            else:
                problems.append(('skipped', 'the release `%s` is not reached '
                                 'on every path after the store'
                                 % short(rn.ast, 50)))
        else:
            problems.append(('subset', v))
    if covered:
        rep.ok(rid, ef, '%s: self.%s[k] is released for every key for which '
               '%s is set' % (label, pool, what), ef.loc(es))
        return
    real = [p for p in problems if p[0] != 'error']
    if not real:
        raise AnalysisError(problems[0][1])
    rep.bad(rid, ef, '%s:release-of-%s' % (short(es, 40), pool),
            '%s sets %s for every element of `%s`, but %s.  %s; for a key '
            'outside of that selection whose entry existed without %s the '
            'parked tasks are never released' % (
                label, what, short(EL.ast.iter, 40) if EL is not None
                else 'its argument', '; '.join(p[1] for p in real), parked,
                what), ef.loc(es), history=hist)


def _leaves_by_done(g, EL, via):
    """every normal path from the loop exit of EL to the function exit
    passes `via`"""
    if EL is None:
        return False
    after = [e.dst for e in g.succ[EL.id] if e.label == 'done']
    r = g.reachable(after, skip_nodes=set(via),
                    labels={'next', 'T', 'F', 'iter', 'done'})
    return g.exit.id not in r


def _covers(prog, C, ef, g, en, EL, edom, edom0, ekey_s, rn, RL, rkey, readn,
            sub, pool):
    """True, or a sentence saying for which subset the release happens"""
    if sub is not None:
        callee, gc, subsites, call = sub
        b = _bind(callee, call)
        if b is None:
            raise AnalysisError('UNRECOGNISED-IDIOM %s: call `%s`'
                                % (ef.where, short(call, 50)))
        bound, explicit = b
        res = []
        for sn, SL, skey, sreadn, ssub in subsites:
            if ssub is not None:
                continue
            if SL is not None:
                # bulk helper: it loops over one of its parameters
                sdom = _domain(callee, gc, SL.ast.iter, SL.id, pool)
                if sdom.base == 'POOL':
                    return _pool_loop_ok(callee, gc, sreadn, SL, None, pool)
                if sdom.base not in explicit:
                    raise AnalysisError('UNRECOGNISED-IDIOM %s: what `%s` '
                                        'iterates' % (callee.where,
                                                      short(SL.ast, 40)))
                outer = _domain(ef, g, bound[sdom.base], rn.id, pool)
                if outer.base == 'POOL':
                    return True
                dom = _Domain(outer.base,
                              _subst(sdom.elt, _ELT, outer.elt),
                              outer.filters + [
                                  (_subst(a, _ELT, outer.elt), l)
                                  for a, l in sdom.filters +
                                  _body_guards(gc, sreadn, SL, sdom.elt)])
                ks = _key_shape(gc, skey, sreadn.id, SL, dom)
                res.append(_same(ef, edom, ekey_s, dom, ks, pool, EL, RL))
            else:
                # per-element helper called inside a loop of ef
                k = _resolve_names(gc, skey, sreadn.id)
                for p in explicit:
                    k = _subst(k, p, _resolve_names(g, bound[p], rn.id))
                if RL is None:
                    res.append(True if EL is None and unparse(k) == ekey_s
                               else 'the key differs')
                    continue
                dom = _domain(ef, g, RL.ast.iter, RL.id, pool)
                if dom.base == 'POOL':
                    return _pool_loop_ok(ef, g, rn, RL, edom, pool)
                dom = _Domain(dom.base, dom.elt, dom.filters +
                              _body_guards(g, rn, RL, dom.elt))
                if not isinstance(RL.ast.target, ast.Name):
                    raise AnalysisError('UNRECOGNISED-IDIOM %s: loop target'
                                        % ef.where)
                ks = unparse(_subst(k, RL.ast.target.id, dom.elt))
                res.append(_same(ef, edom, ekey_s, dom, ks, pool, EL, RL))
        if any(r is True for r in res):
            return True
        if not res:
            raise AnalysisError('UNRECOGNISED-IDIOM %s: release in `%s`'
                                % (ef.where, short(call, 50)))
        return res[0]
    if RL is None:
        if EL is None and unparse(_resolve_names(g, rkey, readn.id)) == ekey_s:
            return True
        raise AnalysisError('UNRECOGNISED-IDIOM %s: release `%s` outside of a '
                            'loop' % (ef.where, short(rn.ast, 50)))
    if RL.kind != 'for':
        raise AnalysisError('UNRECOGNISED-IDIOM %s: release in a while loop'
                            % ef.where)
    if RL is EL:
        dom = edom0
    else:
        dom = _domain(ef, g, RL.ast.iter, RL.id, pool)
    if dom.base == 'POOL':
        return _pool_loop_ok(ef, g, readn, RL, edom, pool)
    dom = _Domain(dom.base, dom.elt, dom.filters +
                  _body_guards(g, readn, RL, dom.elt))
    ks = _key_shape(g, rkey, readn.id, RL, dom)
    return _same(ef, edom, ekey_s, dom, ks, pool, EL, RL)


def _same(ef, edom, ekey_s, dom, ks, pool, EL, RL):
    if edom is None:
        raise AnalysisError('UNRECOGNISED-IDIOM %s: store outside of a loop, '
                            'release inside' % ef.where)
    if dom.base != edom.base:
        raise AnalysisError('UNRECOGNISED-IDIOM %s: the store iterates `%s`, '
                            'the release `%s`' % (ef.where, edom.base,
                                                  dom.base))
    if ks is None or ks != ekey_s:
        raise AnalysisError('UNRECOGNISED-IDIOM %s: key of the store `%s`, '
                            'of the release `%s`' % (ef.where, ekey_s, ks))
    mine = {(unparse(a), l) for a, l in edom.filters}
    extra = [(a, l) for a, l in dom.filters if (unparse(a), l) not in mine]
    sub = [(a, l) for a, l in extra
           if _filter_verdict(ef, a, l, pool) == 'subset']
    if not sub:
        return True
    return ('the loop that releases the tasks parked in self.%s iterates `%s`'
            ', which holds only the elements for which %s' % (
                pool, short(RL.ast.iter, 40) if RL is not None else '?',
                ' and '.join('`%s`' % unparse(a).replace(_ELT, '<elt>')
                             if l == 'T' else '`not (%s)`' %
                             unparse(a).replace(_ELT, '<elt>')
                             for a, l in sub)))


# ------------------------------------------------------------------------------
# R05.9  exactly ONE final state reaches the application
#
# On the client the final state of a task is arbitrated by the notification
# path of C06: `_task_state_progress` answers a late / contradictory final
# state with nothing to replay (or raises), `_update_tasks` replays only what
# it answers, and every other caller of `Task._update` is, for each final
# current state, excluded by its own guards or refused by `Task._update`.
# The two rules which decide that (R06.5: the replay takes its states from the
# progress function only; R06.6: a final state is never left on the direct
# update path) are re-evaluated here: a change that lets a second final state
# through (CANCELED, then FAILED for the same task) breaks "every task reaches
# exactly one final state" of this property just as it breaks the state model.
#
def r05_9(prog, rep, rid='R05.9'):
    from . import c06
    errors = []
    for fn in (c06.r06_5, c06.r06_6):
        try:
            fn(prog, rep, rid=rid)
        except AnalysisError as e:
            errors.append(e)
    rep.rule(rid, 'a task reaches exactly one final state on the client: the '
             'states replayed by _update_tasks are those answered by '
             '_task_state_progress (which arbitrates between contradictory '
             'final states) and every other call of Task._update is excluded '
             'or refused for a task that is already final (R06.5 and R06.6 '
             're-evaluated)', minimum=7)
    if errors:
        raise errors[0]


# ------------------------------------------------------------------------------
# R05.11  raptor: exit code -> target state (R20.4 re-evaluated)
#
# `Master._result_cb` is the second "exit code -> target_state" mechanism of
# this property (the first, Popen._check_running, is R05.2): DONE only for an
# exit code which is 0, FAILED for every other and for a missing one, and the
# completed requests handed on exactly once towards output staging.  The C20
# module decides this by evaluating the method for the codes 0, 1, -9 and None;
# the same obligations are part of "DONE only if the task's process exited
# with code 0".
#
def r05_11(prog, rep, rid='R05.11'):
    from . import c20
    err = None
    try:
        c20.r20_4(prog, rep, rid=rid)
    except AnalysisError as e:
        err = e
    rep.rule(rid, 'raptor Master._result_cb: exit code 0 -> target state '
             'DONE, any other or a missing exit code -> FAILED; completed '
             'requests are handed on exactly once, towards agent output '
             'staging (R20.4 re-evaluated)', minimum=6)
    if err:
        raise err


# ------------------------------------------------------------------------------
# R05.12  a FAILED / CANCELED of an agent component reaches the client
#         (part of R16.3 re-evaluated)
#
# Agent components fail / cancel a task with `self.advance(task, rps.FAILED)`:
# published only, never pushed (R05.5).  The update leaves the pilot only when
# its message carries a true `fwd` item - `crosswire_pubsub` drops the others.
# Necessary: BaseComponent.advance publishes the caller's flag, and
# AgentComponent.advance defaults it to true and passes it on unchanged.  Those
# three obligations of R16.3 are evaluated here; the others of that rule
# (client default, cancel requests, typed messages) do not bear on this
# property and are ignored.
#
_R05_12_CONSTRUCTS = ('update:fwd', 'AgentComponent.advance(fwd=)',
                      'AgentComponent.advance:pass')


class _AllSeen(Exception):
    pass


class _OnlyConstructs:
    """a Report that keeps only the obligations with one of the named
    constructs (everything else a re-evaluated rule says is dropped)"""

    def __init__(self, rep, constructs):
        self._rep = rep
        self._constructs = constructs
        self.seen = set()

    def __getattr__(self, name):
        return getattr(self._rep, name)

    def rule(self, rid, text, minimum=1):
        pass

    def check(self, cond, rid, where, what, construct=None, **kw):
        if construct in self._constructs:
            self.seen.add(construct)
            self._rep.check(cond, rid, where, what, construct=construct, **kw)
            if self.seen == set(self._constructs):
                raise _AllSeen()          # the rest of the rule is not ours
        return bool(cond)

    def ok(self, *a, **kw):
        pass

    def bad(self, *a, **kw):
        pass

    def info(self, *a, **kw):
        pass


def r05_12(prog, rep, rid='R05.12'):
    from . import c16
    rep.rule(rid, 'a state update of an agent component (FAILED / CANCELED '
             'are published only) leaves the pilot: BaseComponent.advance '
             "publishes the caller's fwd flag, AgentComponent.advance defaults "
             'it to true and passes it on unchanged (R16.3, these three '
             'obligations, re-evaluated)', minimum=3)
    only = _OnlyConstructs(rep, _R05_12_CONSTRUCTS)
    try:
        c16.r16_3(prog, only, rid=rid)
    except _AllSeen:
        return
    if only.seen != set(_R05_12_CONSTRUCTS):
        raise AnalysisError('R05.12: R16.3 did not evaluate the obligations %s'
                            % sorted(set(_R05_12_CONSTRUCTS) - only.seen))


# ------------------------------------------------------------------------------
# R05.13  the replay on the client ends with the state that was notified
#
# `_update_tasks` asks `_task_state_progress(uid, current, target)` for the
# states to replay; the answer is empty or ENDS with the state the task has to
# reach.  FAILED / CANCELED are published once, so the Task object becomes final
# only if that last element is applied.  Between the progress call and the
# replay loop the list may be re-bound or changed in place ("don't replay
# intermediate states"): every such statement which is reached for a final
# target must map a list that ends with the target to a non-empty list that
# ends with the target.  Decided by value: the statement is evaluated on lists
# of 1..4 distinct states.
#
class _NoValue(Exception):
    pass


def _ev_list(e, env):
    """value of an expression over lists / ints, names from env"""
    if isinstance(e, ast.Name):
        if e.id in env:
            return env[e.id]
        raise _NoValue(unparse(e))
    if isinstance(e, ast.Constant) and (e.value is None or (
            isinstance(e.value, int) and not isinstance(e.value, bool))):
        return e.value
    if isinstance(e, ast.UnaryOp) and isinstance(e.op, ast.USub):
        v = _ev_list(e.operand, env)
        if isinstance(v, int):
            return -v
    if isinstance(e, ast.BinOp) and isinstance(e.op, (ast.Add, ast.Sub)):
        a, b = _ev_list(e.left, env), _ev_list(e.right, env)
        if isinstance(a, int) and isinstance(b, int):
            return a + b if isinstance(e.op, ast.Add) else a - b
        if isinstance(a, list) and isinstance(b, list) and \
                isinstance(e.op, ast.Add):
            return a + b
    if isinstance(e, (ast.List, ast.Tuple)):
        out = []
        for x in e.elts:
            if isinstance(x, ast.Starred):
                v = _ev_list(x.value, env)
                if not isinstance(v, list):
                    raise _NoValue(unparse(e))
                out += v
            else:
                out.append(_ev_list(x, env))
        return out
    if isinstance(e, ast.Call) and not e.keywords:
        fn = dotted(e.func)
        if fn in ('list', 'tuple', 'ru.as_list') and not e.args:
            return []
        if len(e.args) == 1 and fn in ('len', 'list', 'tuple', 'reversed',
                                       'ru.as_list'):
            v = _ev_list(e.args[0], env)
            if isinstance(v, list):
                return len(v) if fn == 'len' else \
                    v[::-1] if fn == 'reversed' else list(v)
        if isinstance(e.func, ast.Attribute) and e.func.attr == 'copy' and \
                not e.args:
            v = _ev_list(e.func.value, env)
            if isinstance(v, list):
                return list(v)
    if isinstance(e, ast.Subscript):
        v = _ev_list(e.value, env)
        if isinstance(v, list):
            if isinstance(e.slice, ast.Slice):
                lo, up, st = [None if x is None else _ev_list(x, env)
                              for x in (e.slice.lower, e.slice.upper,
                                        e.slice.step)]
                if all(x is None or isinstance(x, int) for x in (lo, up, st)) \
                        and st != 0:
                    return v[lo:up:st]
            else:
                i = _ev_list(e.slice, env)
                if isinstance(i, int) and -len(v) <= i < len(v):
                    return v[i]
    raise _NoValue(unparse(e))


def _in_place(a, name, env):
    """new value of the list `name` after statement `a`, None if `a` does not
    change it in place; _NoValue if it does in a way that is not evaluated"""
    def is_name(x):
        return isinstance(x, ast.Name) and x.id == name
    cur = env[name]
    if isinstance(a, ast.Delete):
        for t in a.targets:
            if isinstance(t, ast.Subscript) and is_name(t.value):
                new = list(cur)
                probe = ast.Subscript(value=t.value, slice=t.slice,
                                      ctx=ast.Load())
                gone = _ev_list(probe, env)
                if isinstance(t.slice, ast.Slice):
                    keep = [x for x in new if x not in gone]
                else:
                    keep = [x for x in new if x != gone]
                return keep
        return None
    if isinstance(a, ast.Assign):
        for t in a.targets:
            if isinstance(t, ast.Subscript) and is_name(t.value):
                if isinstance(t.slice, ast.Slice) and t.slice.lower is None \
                        and t.slice.upper is None and t.slice.step is None:
                    v = _ev_list(a.value, env)
                    if isinstance(v, list):
                        return v
                raise _NoValue(unparse(a))
        return None
    if isinstance(a, ast.AugAssign) and is_name(a.target):
        v = _ev_list(a.value, env)
        if isinstance(a.op, ast.Add) and isinstance(v, list):
            return cur + v
        raise _NoValue(unparse(a))
    for c in calls_in(a) if isinstance(a, ast.stmt) else []:
        if isinstance(c.func, ast.Attribute) and is_name(c.func.value):
            m = c.func.attr
            if m in ('copy', 'index', 'count'):
                continue
            new = list(cur)
            if m == 'pop' and len(c.args) <= 1:
                i = _ev_list(c.args[0], env) if c.args else -1
                if isinstance(i, int) and -len(new) <= i < len(new):
                    new.pop(i)
                    return new
            elif m == 'reverse' and not c.args:
                return new[::-1]
            elif m == 'clear' and not c.args:
                return []
            elif m == 'append' and len(c.args) == 1:
                return new + [_ev_list(c.args[0], env)]
            raise _NoValue(unparse(c))
    return None


def r05_13(prog, rep, rid='R05.13'):
    from . import c06
    from ..flow import reaching_defs, const_compare
    rep.rule(rid, 'the states TaskManager._update_tasks replays for a '
             'notification end with the state _task_state_progress answered '
             'last: no statement between the progress call and the replay '
             'loop drops the last element of the list for a final target',
             minimum=1)
    tm, f, g, smap, H = c06.batch_info(prog)
    rep.saw(f)
    final = set(prog.const('states.py', 'FINAL'))
    pcs = [c for c in calls_in(f.node)
           if call_name(c).endswith('_task_state_progress')]
    if len(pcs) != 1:
        raise AnalysisError('UNRECOGNISED-IDIOM %s: _task_state_progress call'
                            % f.where)
    pn = smap[id(pcs[0])]
    asg = pn.ast
    if not (isinstance(asg, ast.Assign) and len(asg.targets) == 1 and
            isinstance(asg.targets[0], (ast.Tuple, ast.List)) and
            len(asg.targets[0].elts) == 2 and
            all(isinstance(x, ast.Name) for x in asg.targets[0].elts)):
        raise AnalysisError('UNRECOGNISED-IDIOM %s: result of '
                            '_task_state_progress' % f.where)
    tname, passed = [x.id for x in asg.targets[0].elts]
    # the replay loop: the loop in the batch loop which applies its element
    # through Task._update
    body = g.loop_body[H.id]
    rls = [n for n in g.nodes if n.kind == 'for' and n.id in body and any(
        isinstance(c.func, ast.Attribute) and c.func.attr == '_update'
        for c in calls_in(n.ast))]
    rls = [n for n in rls if not any(m is not n and m.id in g.loop_body[n.id]
                                     for m in rls)] or rls
    if len(rls) != 1:
        raise AnalysisError('UNRECOGNISED-IDIOM %s: replay loop' % f.where)
    R = rls[0]
    if passed not in _names(R.ast.iter):
        raise AnalysisError('UNRECOGNISED-IDIOM %s: the replay loop iterates '
                            '`%s`, not the list answered by '
                            '_task_state_progress' % (f.where,
                                                      short(R.ast.iter, 40)))
    # names which hold the target state: the first result of the progress
    # call and what was given to it as target
    tnames = {tname}
    if len(pcs[0].args) == 3 and isinstance(pcs[0].args[2], ast.Name):
        tnames.add(pcs[0].args[2].id)
    ttests = []
    for m in g.nodes:
        if m.kind != 'test' or m.ast is None:
            continue
        cc = const_compare(prog, f.module, m.ast, f.cls)
        if cc is not None and cc[0] in tnames:
            ttests.append((m.id, cc[1], cc[2]))
    start = loop_slice(g, H.id)[0]

    reached = {}
    for st in final:
        skip = [(tid, 'F' if (st in vals) == (op == 'in') else 'T')
                for tid, op, vals in ttests]
        reached[st] = g.reachable(start, skip_edges=skip)

    def finals_reaching(nid):
        """final target states for which the node is reached"""
        return {st for st in final if nid in reached[st]}

    def local_values(node, st, L, names):
        """[{name: value}]: the values the other locals the statement reads
        can have when it is reached for the final target st (every reaching
        definition which is itself reached for st; evaluated over the list)"""
        base = {passed: list(L), **{t: L[-1] for t in tnames}}
        envs = [base]
        for x in sorted(names):
            defs = [(dn, dv) for dn, dv in reaching_defs(g, x, node.id)
                    if dn.id in reached[st]]
            if not defs:
                continue                    # a global / builtin / parameter
            vals = []
            for dn, dv in defs:
                if dv is None:
                    raise _NoValue(x)
                v = _ev_list(dv, base)
                if v not in vals:
                    vals.append(v)
            envs = [dict(e, **{x: v}) for e in envs for v in vals][:64]
        return envs
    between = (g.reachable(pn.id, no_back=True) - {pn.id}) & body
    between = {nid for nid in between
               if R.id in g.reachable(nid, no_back=True)} - g.loop_body[R.id]

    def judge(what, node, fn, reads):
        """fn(env) -> new value of the list; evaluated for lists of 1..4
        states which end with the target"""
        reach = finals_reaching(node.id)
        if not reach:
            rep.ok(rid, f, '%s is not reached for a final target' % what,
                   f.loc(node.ast))
            return
        names = {x.id for x in ast.walk(reads) if isinstance(x, ast.Name) and
                 isinstance(x.ctx, ast.Load)} - {passed} - tnames
        worst = None
        for st in sorted(reach):
            for n in (1, 2, 3, 4):
                L = ['<state %d>' % (i + 1) for i in range(n - 1)] + \
                    ['<target>']
                try:
                    vs = [fn(env) for env in local_values(node, st, L, names)]
                except _NoValue as e:
                    raise AnalysisError('UNRECOGNISED-IDIOM %s: %s changes '
                                        'the list of states to replay in a '
                                        'way that is not evaluated here (`%s`)'
                                        % (f.where, what, e))
                for v in vs:
                    if v is None:
                        return
                    if not isinstance(v, list):
                        raise AnalysisError('UNRECOGNISED-IDIOM %s: %s does '
                                            'not yield a list' % (f.where,
                                                                  what))
                    if not v or v[-1] != L[-1]:
                        worst = worst or (L, v)
        rep.check(worst is None, rid, f, '%s keeps the last state of the '
                  'replay' % what, construct='replay:keeps-target',
                  message='TaskManager._update_tasks: %s, reached for the '
                  'target state(s) %s, turns the answer %s of '
                  '_task_state_progress into %s: the notified state itself is '
                  'not among the states applied to the Task object.  FAILED / '
                  'CANCELED are published once, so the task never becomes '
                  'final for the application (wait_tasks() hangs, callbacks '
                  'for the final state never fire)'
                  % (what, sorted(reach), worst[0] if worst else '',
                     worst[1] if worst else ''), loc=f.loc(node.ast),
                  history='a task that is still in TMGR_STAGING_INPUT_PENDING '
                  'is canceled (or fails early): the notification CANCELED '
                  'arrives while the Task object is more than one state away '
                  'from final; Task.state stays non-final')
    for nid in sorted(between):
        n = g.nodes[nid]
        if n.kind != 'stmt' or n.ast is None:
            continue
        a = n.ast
        if isinstance(a, ast.Assign) and any(
                passed in stores_in_target(t) and isinstance(t, ast.Name)
                for t in a.targets):
            if isinstance(a.value, (ast.List, ast.Tuple)) and \
                    not a.value.elts or (
                        isinstance(a.value, ast.Call) and not a.value.args
                        and dotted(a.value.func) in ('list', 'tuple')):
                continue              # nothing is replayed by decision: R05.9
            judge('`%s`' % short(a, 50), n,
                  lambda env, a=a: _ev_list(a.value, env), a.value)
        elif isinstance(a, ast.Assign) and any(
                passed in stores_in_target(t) for t in a.targets):
            raise AnalysisError('UNRECOGNISED-IDIOM %s: `%s` re-binds the '
                                'list of states to replay' % (f.where,
                                                              short(a, 50)))
        elif isinstance(a, (ast.Assign, ast.AugAssign, ast.Delete, ast.Expr)) \
                and passed in _names(a):
            judge('`%s`' % short(a, 50), n,
                  lambda env, a=a: _in_place(a, passed, env), a)
    judge('the iterable `%s` of the replay loop' % short(R.ast.iter, 40), R,
          lambda env: _ev_list(R.ast.iter, env), R.ast.iter)


# ------------------------------------------------------------------------------
# R05.14  named sub-queues: producer and consumer agree
#
# A zmq queue serves named sub-queues: `put(things, qname=X)` is only seen by
# `get(qname=X)`, and both default to the same unnamed sub-queue.  The proxy
# queue between client and agent is shared by all pilots of a session: the
# agent reads the sub-queue of its pilot, the client the sub-queue of the
# session.  A hand-on which pushes to a (state, queue) row whose consumers all
# read a named sub-queue must therefore name one (and must not name one when
# the consumers read the unnamed sub-queue), and where both names can be
# traced to the session id or the pilot id they must be of the same kind.
#
def _qname_of_row(call):
    q = kwarg(call, 'qname', 3)
    if q is None or (isinstance(q, ast.Constant) and q.value is None):
        return None
    return q


def _attr_origin(prog, K, e, depth=0):
    """follow `self.<attr>` to the value it is assigned from (only when the
    classes of the mro assign it exactly once)"""
    if depth > 3 or K is None:
        return e
    ch = dotted(e)
    if not ch or not ch.startswith('self.') or ch.count('.') != 1:
        return e
    vals = []
    for c in prog.mro(K):
        for m in c.methods.values():
            for n in walk(m.node):
                if isinstance(n, ast.Assign):
                    for t in n.targets:
                        if dotted(t) == ch:
                            vals.append(n.value)
    if len(vals) != 1:
        return e
    return _attr_origin(prog, K, vals[0], depth + 1)


def _qname_kind(prog, K, e):
    """'session' / 'pilot' when the sub-queue name is - by definition - the
    id of the session (`<session>.uid`, `cfg.sid`) or of the pilot
    (`cfg.pid`, `<pilot>['uid']`); None when it cannot be traced"""
    o = _attr_origin(prog, K, e)
    ch = dotted(o)
    if ch:
        parts = ch.split('.')
        if parts[-1] == 'sid' and len(parts) > 1:
            return 'session'
        if parts[-1] == 'pid' and len(parts) > 1:
            return 'pilot'
        if parts[-1] == 'uid' and len(parts) > 1 and \
                parts[-2].lstrip('_') == 'session':
            return 'session'
    return None


def _qname_binding(prog, K, f, call, pos_of, push_pos=None):
    """(expression or None, complete): the sub-queue name a direct hand-on
    passes.  A parameter of the enclosing method that defaults to None is
    followed to the calls of that method in the class which can push: the
    name is missing if one of them leaves the parameter unbound"""
    q = kwarg(call, 'qname', pos_of)
    if q is None or (isinstance(q, ast.Constant) and q.value is None):
        return None, True
    if not (isinstance(q, ast.Name) and q.id in f.params):
        return q, True
    a = f.node.args
    names = [x.arg for x in a.posonlyargs + a.args]
    dflt = dict(zip(names[len(names) - len(a.defaults):], a.defaults))
    d = dflt.get(q.id)
    if d is None or not (isinstance(d, ast.Constant) and d.value is None):
        return q, True
    for n in walk(f.node):
        if isinstance(n, ast.Name) and n.id == q.id and \
                isinstance(n.ctx, ast.Store):
            # re-bound in the method (`if not qname: qname = ...`)
            return q, True
    pp = [x for x in names if x != 'self']
    pushp = kwarg(call, 'push', push_pos)
    for c in prog.mro(K) + [k for k in prog.subclasses(K) if k is not K]:
        for m in c.methods.values():
            for cc in calls_in(m.node, nested=True):
                if call_name(cc) != 'self.' + f.name:
                    continue
                h = prog.resolve_call(m, cc, K)
                if h is not f:
                    continue
                if isinstance(pushp, ast.Name) and pushp.id in pp:
                    b = kwarg(cc, pushp.id, pp.index(pushp.id))
                    if isinstance(b, ast.Constant) and b.value is False:
                        continue
                b = kwarg(cc, q.id, pp.index(q.id))
                if b is None or (isinstance(b, ast.Constant) and
                                 b.value is None):
                    return None, False
    return q, True


def r05_14(prog, rep, rid='R05.14'):
    rep.rule(rid, 'a pushing hand-on names a sub-queue (qname) exactly when '
             'the consumers of its (state, queue) row read a named sub-queue, '
             'and both name it after the same entity (session / pilot)',
             minimum=30)
    rows = route_table(prog)
    final = set(prog.const('states.py', 'FINAL'))
    comp = prog.cls(*COMP)
    n_named = 0
    for c, f in all_methods(prog):
        if comp not in prog.mro(c) or f.module.rel == 'utils/component.py':
            continue
        for call in calls_in(f.node, nested=True):
            if not I.is_handon(call):
                continue
            h = prog.resolve_call(f, call, c)
            if h is None or 'qname' not in h.params or \
                    'push' not in h.params:
                # a wrapper: the hand-on inside of it is the site
                continue
            hp = [x for x in h.params if x != 'self']
            push = kwarg(call, 'push', hp.index('push'))
            if push is None or (isinstance(push, ast.Constant) and
                                not push.value):
                continue
            st = pushed_state(prog, f, call, rows, c)
            if st == 'FINAL' or st in final:
                continue
            concrete = [k for k in prog.subclasses(c)] or [c]
            for k in concrete:
                outs = [r for r in class_rows(prog, rows, k, 'out')
                        if r[1] not in final and (st is None or r[1] == st)]
                cons = [i for r in outs for i in rows['in']
                        if i[1] == r[1] and i[2] == r[2]]
                if not cons:
                    continue
                named = {_qname_of_row(i[5]) is not None for i in cons}
                if len(named) != 1:
                    rep.info(rid, f, 'consumers of %s disagree about the '
                             'sub-queue' % sorted({(i[1], i[2])
                                                   for i in cons}), f.loc(call))
                    continue
                named = named.pop()
                q, complete = _qname_binding(prog, k, f, call,
                                             hp.index('qname'),
                                             hp.index('push'))
                where = ', '.join(sorted({'%s.%s (%s, %s)' % (
                    i[0].name, i[4].name, i[1], i[2]) for i in cons}))
                if named:
                    n_named += 1
                ok = (q is not None) == named
                msg = None
                if not ok and named:
                    msg = ('%s pushes tasks with `%s` to the unnamed '
                           'sub-queue%s, but the consumer%s %s read%s a named '
                           'sub-queue (qname=%s): the tasks stay in the queue '
                           'and never reach a final state' % (
                               f.qual, short(call, 60), '' if complete else
                               ' (a caller leaves the qname parameter at its '
                               'default None)',
                               '' if len(cons) == 1 else 's', where,
                               's' if len(cons) == 1 else '',
                               '/'.join(sorted({unparse(_qname_of_row(i[5]))
                                                for i in cons}))))
                elif not ok:
                    msg = ('%s pushes tasks with `%s` to the sub-queue `%s`, '
                           'but the consumer%s %s read%s the unnamed sub-queue'
                           ': the tasks stay in the queue and never reach a '
                           'final state' % (
                               f.qual, short(call, 60), unparse(q),
                               '' if len(cons) == 1 else 's', where,
                               's' if len(cons) == 1 else ''))
                else:
                    if named:
                        pk = _qname_kind(prog, k, q)
                        ck = {_qname_kind(prog, i[0], _qname_of_row(i[5]))
                              for i in cons}
                        if pk is not None and None not in ck and ck != {pk}:
                            ok = False
                            msg = ('%s pushes tasks with `%s` to the '
                                   'sub-queue named after the %s (`%s`), but '
                                   'the consumer %s reads the sub-queue named '
                                   'after the %s: the tasks never arrive and '
                                   'never reach a final state' % (
                                       f.qual, short(call, 60), pk,
                                       unparse(q), where, '/'.join(sorted(ck))))
                rep.check(ok, rid, f, '`%s` in %s and the consumer %s agree '
                          'about the sub-queue (%s)' % (
                              short(call, 40), k.name, where,
                              'named' if named else 'unnamed'),
                          construct=call, message=msg, loc=f.loc(call),
                          history='any task that passes this hand-on (for the '
                          'proxy queue: every task that was executed, or '
                          'every task sent to the pilot) is put where nobody '
                          'gets it: it never reaches a final state')
    if n_named < 2:
        raise AnalysisError('R05.14: only %d pushing hand-on(s) to a named '
                            'sub-queue found (client -> agent and agent -> '
                            'client are expected)' % n_named)


# ------------------------------------------------------------------------------
# R05.15  client scheduler: one outcome per task (R12.2 re-evaluated)
#
# The client side scheduler is the first component a task passes after
# `submit_tasks`.  Each task of a bulk it receives (and each task it takes out
# of its pools later) must leave the iteration that looks at it with exactly
# one outcome: handed on, or kept in a pool which is rooted at the component
# (`self._early[pid]`, the wait pool) - a task appended to a temporary
# (`self._early.get(pid, list()).append(task)`: the default list is never
# stored) or taking a branch without outcome never reaches a final state, a
# task with two outcomes is forwarded twice.  The C12 module decides this by
# exploring one iteration of every task loop of `work`, RoundRobin /
# Backfilling `_work` and `_schedule_tasks`; the same obligations are the
# client scheduler's part of "every task accepted by a task manager reaches
# exactly one final state".
#
def r05_15(prog, rep, rid='R05.15'):
    from . import c12
    err = None
    try:
        c12.r12_2(prog, rep, rid=rid)
    except AnalysisError as e:
        err = e
    rep.rule(rid, 'client scheduler: every iteration of a task loop has '
             'exactly one outcome for the task (handed on xor kept in a pool '
             'rooted at the component), and every local outcome list is '
             'handed on after the loop (R12.2 re-evaluated)', minimum=12)
    if err:
        raise err


# ------------------------------------------------------------------------------
# R05.16  things collected in a local container leave the method
#
# A work routine sorts the things of a bulk into local lists / dicts of lists
# (`to_schedule[prio].append(task)`, `to_raptor[name].append(task)`) and hands
# each of them on after the loop.  A thing that sits in such a local container
# when the method returns is gone: nobody holds a reference to it any more.
# So on every normal path from the statement that collects a thing to the
# return the container is read again (iterated, handed on, put into a queue,
# stored in a pool, returned) - unless the path leaves a test of that very
# container by its `empty` edge, which cannot be taken once something was
# collected.
#
def _smap(g):
    m = getattr(g, '_c05_smap', None)
    if m is None:
        m = I.stmt_node_map(g)
        try:
            g._c05_smap = m
        except AttributeError:
            pass
    return m


def _is_log_stmt(a):
    return isinstance(a, ast.Expr) and isinstance(a.value, ast.Call) and \
        (dotted(a.value.func) or '').startswith(('self._log.', 'self._prof.'))


def _collect_base(recv):
    """name of the local container behind the receiver of an append:
    C, C[k], C.setdefault(k, ..), C[k][j]"""
    e = recv
    while True:
        if isinstance(e, ast.Subscript):
            e = e.value
        elif isinstance(e, ast.Call) and isinstance(e.func, ast.Attribute) \
                and e.func.attr == 'setdefault':
            e = e.func.value
        else:
            break
    return e.id if isinstance(e, ast.Name) else None


def _collects(a):
    """[(container name, collected expression, ast nodes that make up the
    collecting access)] of a simple statement"""
    out = []
    if a is None or isinstance(a, (ast.FunctionDef, ast.ClassDef)):
        return out
    for c in calls_in(a):
        if isinstance(c.func, ast.Attribute) and \
                c.func.attr in ('append', 'add', 'extend') and \
                len(c.args) == 1 and not c.keywords:
            base = _collect_base(c.func.value)
            if base is not None:
                out.append((base, c.args[0], c.func.value))
    if isinstance(a, ast.Assign) and len(a.targets) == 1 and \
            isinstance(a.targets[0], ast.Subscript):
        base = _collect_base(a.targets[0].value)
        if base is not None:
            out.append((base, a.value, a.targets[0]))
    if isinstance(a, ast.AugAssign) and isinstance(a.op, ast.Add):
        base = _collect_base(a.target)
        if base is not None:
            out.append((base, a.value, a.target))
    return out


def _fresh_containers(f):
    """the locals of f whose every assignment creates an empty container"""
    vals = {}

    def note(t, v):
        for name in stores_in_target(t):
            vals.setdefault(name, []).append(
                v if isinstance(t, ast.Name) else None)
    for n in walk(f.node):
        if isinstance(n, ast.Assign):
            for t in n.targets:
                note(t, n.value)
        elif isinstance(n, (ast.AugAssign, ast.AnnAssign, ast.For,
                            ast.comprehension, ast.NamedExpr)):
            note(n.target, None)
        elif isinstance(n, ast.withitem) and n.optional_vars is not None:
            note(n.optional_vars, None)

    def empty(v):
        if v is None:
            return False
        if _is_empty_ctor(v):
            return True
        if isinstance(v, ast.Call) and not v.keywords:
            fn = (dotted(v.func) or '').split('.')[-1]
            if fn == 'dict' and not v.args:
                return True
            if fn == 'defaultdict' and len(v.args) == 1 and \
                    dotted(v.args[0]) in ('list', 'set', 'dict'):
                return True
        return False
    return {name for name, vs in vals.items()
            if all(empty(v) for v in vs) and name not in f.params}


def _strip_listy(e):
    """the collection behind list(x), sorted(x, ..), ru.as_list(x),
    enumerate(x), x.values(), x.items(), x[..]"""
    while True:
        if isinstance(e, ast.Call) and e.args and (
                dotted(e.func) in ('list', 'sorted', 'reversed', 'enumerate',
                                   'tuple') or
                (dotted(e.func) or '').endswith('.as_list')):
            e = e.args[0]
        elif isinstance(e, ast.Call) and isinstance(e.func, ast.Attribute) \
                and e.func.attr in ('values', 'items', 'copy') and \
                not e.args:
            e = e.func.value
        elif isinstance(e, ast.Subscript):
            e = e.value
        elif isinstance(e, (ast.List, ast.Tuple)) and len(e.elts) == 1 and \
                isinstance(e.elts[0], ast.Name):
            # tasks = [tasks]
            e = e.elts[0]
        else:
            return e


def _is_work_cb(prog, rows, c, f):
    for r in rows['in']:
        if r[3] == 'self.' + f.name and \
                (r[0] in prog.mro(c) or c in prog.mro(r[0])):
            return True
    return False


def _received(prog, rows, c, f, g, nid, name, depth=0):
    """the local `name` at cfg node nid is (an element of) what this method
    received and now owns: the bulk parameter of a registered work callback,
    or what a queue below self returned from `get()` / `get_nowait()`"""
    if depth > 4:
        return False
    defs = reaching_defs(g, name, nid)
    if not defs:
        return name in f.params and _is_work_cb(prog, rows, c, f)
    for dn, v in defs:
        if dn.kind == 'for':
            src = dn.ast.iter
        elif v is None:
            src = getattr(dn.ast, 'value', None)
            if isinstance(dn.ast, ast.AugAssign) or src is None:
                return False
        else:
            src = v
        src = _strip_listy(src)
        if isinstance(src, ast.Name):
            if src.id == name and dn.kind != 'for':
                # tasks = ru.as_list(tasks)
                if not (name in f.params and
                        _is_work_cb(prog, rows, c, f)):
                    return False
                continue
            if not _received(prog, rows, c, f, g, dn.id, src.id, depth + 1):
                return False
        elif isinstance(src, ast.Call) and \
                isinstance(src.func, ast.Attribute) and \
                src.func.attr in ('get', 'get_nowait') and not src.args and \
                root_name(src.func.value) == 'self':
            continue
        else:
            return False
    return True


def _empty_edges(g, name):
    """[(test node id, label)]: edges taken only when the container is
    empty: `if C` / `if len(C)` / `if len(C) > 0` by F, `if len(C) == 0` by T
    (`not` is resolved by the cfg)"""
    def is_len(e):
        return isinstance(e, ast.Call) and dotted(e.func) == 'len' and \
            len(e.args) == 1 and isinstance(e.args[0], ast.Name) and \
            e.args[0].id == name
    out = []
    for n in g.nodes:
        if n.kind != 'test':
            continue
        a = n.ast
        if (isinstance(a, ast.Name) and a.id == name) or is_len(a):
            out.append((n.id, 'F'))
        elif isinstance(a, ast.Compare) and len(a.ops) == 1 and \
                is_len(a.left) and \
                isinstance(a.comparators[0], ast.Constant) and \
                a.comparators[0].value == 0:
            if isinstance(a.ops[0], (ast.Gt, ast.NotEq)):
                out.append((n.id, 'F'))
            elif isinstance(a.ops[0], ast.Eq):
                out.append((n.id, 'T'))
    return out


def _reads_container(node, name):
    """the cfg node reads the container other than by collecting into it,
    testing it for emptiness or logging it"""
    a = node.ast
    if a is None or node.kind in ('while', 'dispatch', 'handler', 'join'):
        return False
    if node.kind == 'for':
        roots = [a.iter]
    elif node.kind == 'with':
        roots = [i.context_expr for i in a.items]
    else:
        roots = [a]
        if node.kind == 'stmt' and _is_log_stmt(a):
            return False
    own = set()
    if node.kind == 'stmt':
        for base, val, acc in _collects(a):
            if base == name:
                own |= {id(x) for x in walk(acc)}
    for r in roots:
        for x in walk(r):
            if isinstance(x, ast.Name) and x.id == name and \
                    isinstance(x.ctx, ast.Load) and id(x) not in own:
                return True
    return False


def r05_16(prog, rep, rid='R05.16'):
    rep.rule(rid, 'things a method received (bulk of a work callback, result '
             'of a queue get) and collects in a fresh local container are '
             'read again (handed on, queued, stored, iterated) on every '
             'normal path to the return, or the container is known to be '
             'empty there', minimum=10)
    comp = prog.cls(*COMP)
    rows = route_table(prog)
    for c, f in all_methods(prog):
        if comp not in prog.mro(c):
            continue
        g = None
        done = set()
        fresh = None
        for n0 in walk(f.node):
            if not isinstance(n0, (ast.Expr, ast.Assign, ast.AugAssign)):
                continue
            if isinstance(n0, ast.Expr) and not (
                    isinstance(n0.value, ast.Call) and
                    isinstance(n0.value.func, ast.Attribute) and
                    n0.value.func.attr in ('append', 'add', 'extend')):
                continue
            if isinstance(n0, ast.Assign) and not (
                    len(n0.targets) == 1 and
                    isinstance(n0.targets[0], ast.Subscript)):
                continue
            cols = [x for x in _collects(n0)
                    if isinstance(x[1], ast.Name) or _thing_names(x[1])]
            if not cols:
                continue
            if fresh is None:
                fresh = _fresh_containers(f)
            cols = [x for x in cols if x[0] in fresh]
            if not cols:
                continue
            if g is None:
                g = cfg_of(f)
                smap = _smap(g)
            node = smap.get(id(n0))
            if node is None or node.kind != 'stmt' or not node.loops:
                continue
            for base, val, acc in cols:
                if (base, node.id) in done:
                    continue
                names = [val.id] if isinstance(val, ast.Name) \
                    else _thing_names(val)
                if not names or not any(
                        _received(prog, rows, c, f, g, node.id, x)
                        for x in names):
                    continue
                done.add((base, node.id))
                rep.saw(f)
                readers = [m.id for m in g.nodes
                           if _reads_container(m, base)]
                r = g.reachable(
                    [e.dst for e in g.succ[node.id] if e.label != 'exc'],
                    skip_nodes=readers, skip_edges=_empty_edges(g, base),
                    labels={'next', 'T', 'F', 'iter', 'done'})
                ok = g.exit.id not in r
                rep.check(ok, rid, f, 'what `%s` collects in %r is read '
                          'again on every path to the return' % (
                              short(n0, 40), base),
                          construct='%s [collected things leave the method]'
                          % base, message='%s: `%s` collects things this '
                          'method received in the local container %r, but a '
                          'normal path from there to the return neither '
                          'reads %r again (hand-on, queue put, store, '
                          'iteration) nor leaves a test of %r by its empty '
                          'edge: the things collected in it are dropped when '
                          'the method returns and never reach a final state'
                          % (f.qual, short(n0, 50), base, base, base),
                          loc=f.loc(n0),
                          history='a bulk for which only %r gets entries '
                          '(e.g. only tasks for a raptor master, nothing to '
                          'place locally): the method returns on the path '
                          'that skips the code which hands %r on'
                          % (base, base))


# ------------------------------------------------------------------------------
# R05.17  a thing is not handed on once per iteration of a loop that does not
#         iterate over things
#
# `advance(x, .., push=True)` puts x into the next component's queue, an
# advance to a final state publishes the final state: doing either twice for
# the same x gives the task two lives (executed twice) or two final states.
# Inside a loop the same statement runs again; that is fine only if x is
# another thing then - the loop (or a statement of its body) re-binds x or
# changes its content between two executions of the hand-on.
#
def _binds(node, name):
    """the cfg node re-binds the local `name` or changes the content of the
    container it names"""
    a = node.ast
    if a is None:
        return False
    if node.kind == 'for':
        return name in stores_in_target(a.target)
    if node.kind == 'with':
        return any(i.optional_vars is not None and
                   name in stores_in_target(i.optional_vars) for i in a.items)
    if node.kind not in ('stmt', 'test'):
        return False
    for n in walk(a):
        if isinstance(n, ast.Name) and n.id == name and \
                isinstance(n.ctx, (ast.Store, ast.Del)):
            return True
    for kind, tgt, n in I.stores(a):
        # membership changes of a list of things: x.clear(), x.pop(),
        # x.remove(t), x.append(t), del x[:], del x[0], x[:] = []; a task
        # dict stays the same thing whatever fields are written or deleted
        # (x['k'] = v, del x['k'], x.pop('k'), x.update(..))
        if kind == 'mutate':
            if not (isinstance(tgt, ast.Name) and tgt.id == name):
                continue
            if n.func.attr not in ('clear', 'pop', 'remove', 'append',
                                   'extend', 'insert'):
                continue
            if n.func.attr == 'pop' and n.args and \
                    isinstance(n.args[0], ast.Constant) and \
                    isinstance(n.args[0].value, str):
                continue
            return True
        if kind in ('del', 'assign'):
            if not (isinstance(tgt, ast.Subscript) and
                    isinstance(tgt.value, ast.Name) and
                    tgt.value.id == name):
                continue
            if isinstance(tgt.slice, ast.Constant) and \
                    isinstance(tgt.slice.value, str):
                continue
            if kind == 'assign' and not isinstance(tgt.slice, ast.Slice):
                continue
            return True
    return False


def _thing_names(e):
    """local names a hand-on's thing argument consists of: x, [x], [x, y]"""
    if isinstance(e, ast.Name):
        return [e.id]
    if isinstance(e, (ast.List, ast.Tuple)) and e.elts and \
            all(isinstance(x, ast.Name) for x in e.elts):
        return [x.id for x in e.elts]
    return []


def r05_17(prog, rep, rid='R05.17'):
    rep.rule(rid, 'a pushing or final hand-on inside a loop hands on another '
             'thing in every iteration (its thing is re-bound or changed '
             'between two executions)', minimum=15)
    final = set(prog.const('states.py', 'FINAL'))
    comp = prog.cls(*COMP)
    for c, f in all_methods(prog):
        if comp not in prog.mro(c):
            continue
        sites = [call for call in calls_in(f.node) if I.is_handon(call)]
        if not sites:
            continue
        g = cfg_of(f)
        smap = _smap(g)
        for call in sites:
            n = smap.get(id(call))
            if n is None or not n.loops:
                continue
            names = _thing_names(I.handon_thing(call))
            if not names:
                continue
            h = prog.resolve_call(f, call, c)
            hp = [x for x in h.params if x != 'self'] if h is not None else []
            push = kwarg(call, 'push', hp.index('push') if 'push' in hp
                         else None)
            if push is None and h is not None and 'push' in hp:
                a = h.node.args
                pn = [x.arg for x in a.posonlyargs + a.args]
                d = dict(zip(pn[len(pn) - len(a.defaults):], a.defaults))
                push = d.get('push')
            pushes = push is not None and not (
                isinstance(push, ast.Constant) and not push.value)
            st = I.handon_state(prog, f, call)
            is_final = st is not None and st is not UNKNOWN and st in final
            if not pushes and not is_final:
                continue
            rep.saw(f)
            succ = [e.dst for e in g.succ[n.id] if e.label != 'exc']
            # loggers and profilers are trusted not to raise
            quiet = [(m.id, 'exc') for m in g.nodes
                     if m.kind == 'stmt' and _is_log_stmt(m.ast)]
            again = []
            for name in names:
                stop = [m.id for m in g.nodes if _binds(m, name)]
                if n.id in stop:
                    continue
                r = g.reachable(succ, skip_nodes=stop, skip_edges=quiet) \
                    if succ else set()
                if n.id in r:
                    again.append(name)
            loop = g.nodes[n.loops[-1]]
            hdr = 'loop'
            if isinstance(loop.ast, ast.For):
                hdr = 'for %s in %s' % (unparse(loop.ast.target),
                                        short(loop.ast.iter, 40))
            elif isinstance(loop.ast, ast.While):
                hdr = 'while %s' % short(loop.ast.test, 40)
            rep.check(not again, rid, f, '`%s` in the loop `%s` hands on '
                      'another thing in every iteration' % (
                          short(call, 40), hdr),
                      construct=call, message='%s: `%s` is inside the loop '
                      '`%s`, but %s is neither re-bound nor changed between '
                      'two executions of it: with two or more iterations the '
                      'same task is %s once per iteration - it is executed '
                      'more than once / gets more than one final state, and '
                      'it is handed on before the remaining iterations have '
                      'done their work' % (
                          f.qual, short(call, 60), hdr,
                          ' / '.join('`%s`' % x for x in again),
                          'pushed to the next component' if pushes
                          else 'advanced to %s' % st),
                      loc=f.loc(call),
                      history='a task for which the loop runs twice (two '
                      'staging directives, two ranks, ...): it is handed on '
                      'twice; if the second iteration fails it is FAILED and '
                      'runs all the same')


# ------------------------------------------------------------------------------
#
# ------------------------------------------------------------------------------
# R05.19  the bulk the worker handler fails is the bulk the worker was given
#
# BaseComponent.work_cb drops the canceled things from the bulk before the
# worker is called (`is_canceled` has advanced them to CANCELED already: they
# are final).  The handler of the worker call fails "the things whose handling
# raised".  Necessary condition for "exactly one final state": the list the
# handler fails is, on every path through the worker call, the very list that
# was handed to the worker - the definitions of the failed name which reach the
# worker call are the definitions which reach the worker's argument (plain
# copies `a = b` / `list(b)` / `b[:]` are followed).  A handler which fails an
# earlier binding (the unfiltered bulk) fails things again which were already
# CANCELED and were never given to the worker.
#
def _bulk_roots(g, e, at, depth=0):
    """the bindings which the value of expression `e` has at cfg node `at`:
    {('def', node id)} for the reaching definitions of a name, plain copies
    followed to what they copy; {('expr', text)} for anything else"""
    e = _strip_wrappers(e)
    if not isinstance(e, ast.Name):
        return {('expr', unparse(e))}
    out = set()
    defs = reaching_defs(g, e.id, at)
    if not defs:
        return {('name', e.id)}
    for n, v in defs:
        v0 = _strip_wrappers(v) if v is not None else None
        if isinstance(v0, ast.Name) and n.kind == 'stmt' and depth < 5 and \
                isinstance(n.ast, (ast.Assign, ast.AnnAssign)) and \
                v0.id != e.id:
            out |= _bulk_roots(g, v0, n.id, depth + 1)
        else:
            out.add(('def', n.id))
    return out


def _failed_bulk(g, region, smap, name, call, depth=0):
    """(name, decided): the bulk name behind `name` as used by the FAILED
    hand-on `call` of the handler: the element of a `for x in B` loop of the
    handler stands for B; a name re-bound in the handler in any other way is
    not decided"""
    cn = smap.get(id(call))
    if cn is None:
        return name, False
    inner = [n for n, v in reaching_defs(g, name, cn.id) if n.id in region]
    if not inner:
        return name, True
    if depth > 3 or len(inner) != 1 or inner[0].kind != 'for' or \
            not isinstance(inner[0].ast.target, ast.Name):
        return name, False
    it = _strip_wrappers(inner[0].ast.iter)
    if not isinstance(it, ast.Name):
        return name, False
    # the loop itself must see the binding from outside the handler
    if any(n.id in region for n, v in reaching_defs(g, it.id, inner[0].id)):
        return it.id, False
    return it.id, True


def r05_19(prog, rep, rid='R05.19'):
    rep.rule(rid, 'the handler of the worker call in BaseComponent.work_cb '
             'fails the bulk that was handed to the worker (same bindings on '
             'every path through the worker call), not an earlier, unfiltered '
             'one', minimum=1)
    comp = prog.cls(*COMP)
    f = prog.find_method(comp, 'work_cb')
    rep.saw(f)
    g = cfg_of(f)
    smap = I.stmt_node_map(g)
    workers = _worker_calls(g)
    if not workers:
        raise AnalysisError('UNRECOGNISED-IDIOM %s: worker call' % f.where)
    entries = [x for x in _failure_handlers(prog) if x[1] is f]
    for w, wc in workers:
        if len(wc.args) != 1 or wc.keywords or \
                isinstance(wc.args[0], ast.Starred):
            raise AnalysisError('UNRECOGNISED-IDIOM %s: the worker is not '
                                'called with one bulk `%s`'
                                % (f.where, short(wc, 60)))
        hs = []
        for e in g.succ[w.id]:
            if e.label == 'exc':
                t = g.nodes[e.dst]
                hs = [g.nodes[x.dst] for x in g.succ[t.id]] \
                    if t.kind == 'dispatch' else [t]
        hids = {h.id for h in hs if h.kind == 'handler'}
        given = _bulk_roots(g, wc.args[0], w.id)
        seen = set()
        for K, f_, g_, h, tv, region, ev, parts in entries:
            if h.id not in hids:
                continue
            for evs in ev.values():
                for kind, H, call in evs:
                    if kind != 'failed' or not any(
                            _carries(x, {tv}) for x in list(call.args) +
                            [k.value for k in call.keywords]):
                        continue
                    bulk, decided = _failed_bulk(g_, region, smap, tv, call)
                    if (h.id, bulk) in seen:
                        continue
                    seen.add((h.id, bulk))
                    if not decided:
                        rep.info(rid, f, 'the handler re-binds `%s` before it '
                                 'fails it: not compared with the worker\'s '
                                 'argument' % bulk, f.loc(call))
                        continue
                    failed_ = _bulk_roots(g_, ast.Name(id=bulk,
                                                       ctx=ast.Load()), w.id)
                    ok = failed_ == given
                    rep.check(ok, rid, f, 'handler(%s) of the worker call '
                              'fails the bulk `%s` the worker was given'
                              % (_htype(h), short(wc.args[0], 30)),
                              construct='work_cb:handler(%s):fails-worker-bulk'
                              % _htype(h),
                              message='BaseComponent.work_cb hands `%s` to the '
                              'worker but its error handler fails `%s`, which '
                              'on some path through the worker call is bound '
                              'elsewhere (bindings reaching the worker '
                              'argument: lines %s; reaching the failed bulk: '
                              'lines %s): the things filtered out before the '
                              'worker call (canceled ones, which is_canceled '
                              'has already advanced to CANCELED) are failed '
                              'too, or things the worker was working on are '
                              'not failed'
                              % (short(wc.args[0], 40), bulk,
                                 _root_lines(g, f, given),
                                 _root_lines(g, f, failed_)),
                              loc=f.loc(h.ast),
                              history='one bulk with a task whose uid is on '
                              'the cancel list and a task for which the worker '
                              'raises: the canceled task is published CANCELED '
                              'and then FAILED (two final states, with the '
                              'neighbour\'s exception recorded on it)')


def _root_lines(g, f, roots):
    out = []
    for k, v in sorted(roots, key=str):
        if k == 'def':
            out.append(str(getattr(g.nodes[v].ast, 'lineno', '?')))
        else:
            out.append('`%s`' % v)
    return ','.join(out) or '-'


def run(prog, rep, tier):
    rep.decided = ('route table: every pushing hand-on to a non-final state '
        'has an output row in its component and a consumer with a worker on '
        'the same (state, queue); exit code 0 <=> DONE, otherwise FAILED with '
        'exit code and exception recorded; the client takes the final state '
        'from target_state and FAILED from its handler; a raising worker '
        'fails its things and the component survives; every stager isolates '
        'failures per task, records the exception on that task and fails '
        'only that task; the client output stager hands each task on once; '
        'FAILED/CANCELED advances record target_state, are published and '
        'never pushed, the agent hands the full task back; a catch-all '
        'handler that hands the thing of the iteration on fails it on every '
        'path (non-final hand-on only for a task whose own outcome is not '
        'DONE) and records the exception first; tasks parked in a keyed pool '
        'until component state appears are released for every key for which '
        'that state is set; on the client the states replayed for a '
        'notification are those answered by the progress function (the '
        'arbiter between contradictory final states) and no other caller of '
        'Task._update changes a task that is already final (R05.9 = R06.5 + '
        'R06.6 re-evaluated), and the replayed list keeps the notified '
        'state as its last element for every final target; a catch-all '
        'handler that fails its thing records the exception on it (three '
        'handlers of the unchanged tree do not: R05.10); the worker handler '
        'of BaseComponent.work_cb records the exception on every thing '
        'before the FAILED hand-on and fails the very bulk the worker '
        'was given (same bindings on every path through the worker '
        'call, R05.19: things filtered out as canceled are not failed '
        'again); the client output stager sorts every '
        'task of a bulk into exactly one of the lists it hands on; raptor '
        'Master._result_cb maps exit code 0 to DONE and every other or '
        'missing code to FAILED (R05.11 = R20.4 re-evaluated); state updates '
        'of agent components carry fwd=True by default (R05.12 = the three '
        'obligations of R16.3 about AgentComponent / BaseComponent.advance).  '
        'Exactly-once finishing in the executor is C07.')
    rep.undecided = ('composition of the ten components under arbitrary '
        'message delivery orders; liveness of the pipeline as a whole.')
    rep.assumptions = ['zmq queues deliver what is put into them',
                       'effect calls are atomic']
    rep.attempt(r05_1, prog, rep)
    rep.attempt(r05_2, prog, rep)
    rep.attempt(r05_3, prog, rep)
    rep.attempt(r05_4, prog, rep)
    rep.attempt(r05_4b, prog, rep)
    rep.attempt(r05_5, prog, rep)
    rep.attempt(r05_6, prog, rep)
    rep.attempt(r05_7, prog, rep)
    rep.attempt(r05_8, prog, rep)
    rep.attempt(r05_9, prog, rep)
    rep.attempt(r05_10, prog, rep)
    rep.attempt(r05_11, prog, rep)
    rep.attempt(r05_12, prog, rep)
    rep.attempt(r05_13, prog, rep)
    rep.attempt(r05_14, prog, rep)
    rep.attempt(r05_15, prog, rep)
    rep.attempt(r05_16, prog, rep)
    rep.attempt(r05_17, prog, rep)
    rep.attempt(r05_18, prog, rep)
    rep.attempt(r05_19, prog, rep)
    # exactly one final state when process exit and cancel coincide
    from .c07 import r07_2
    rep.attempt(r07_2, prog, rep, rid='R07.2')


# ------------------------------------------------------------------------------
_U  = 'utils/component.py'
_P  = 'agent/executing/popen.py'
_TO = 'tmgr/staging_output/default.py'
_TI = 'tmgr/staging_input/default.py'
_AI = 'agent/staging_input/default.py'
_AO = 'agent/staging_output/default.py'
_SB = 'agent/scheduler/base.py'
_EB = 'agent/executing/base.py'
_A0 = 'agent/agent_0.py'
_TS = 'tmgr/scheduler/base.py'

MUTATIONS = [
    dict(name='R05.1 scheduler pushes to a state without output row', rules=('R05.1',), edits=[
        (_SB, "        self.register_output(rps.AGENT_EXECUTING_PENDING,\n                             rpc.AGENT_EXECUTING_QUEUE)\n\n        # re-register the control callback", "        self.register_output(rps.AGENT_EXECUTING,\n                             rpc.AGENT_EXECUTING_QUEUE)\n\n        # re-register the control callback")]),
    dict(name='R05.1 executor output goes to a queue nobody reads', rules=('R05.1',), edits=[
        (_EB, "        self.register_output(rps.AGENT_STAGING_OUTPUT_PENDING,\n                             rpc.AGENT_STAGING_OUTPUT_QUEUE)", "        self.register_output(rps.AGENT_STAGING_OUTPUT_PENDING,\n                             rpc.AGENT_COLLECTING_QUEUE)")]),
    dict(name='R05.1 agent output stager listens on the wrong state', rules=('R05.1',), edits=[
        (_AO, "        self.register_input(rps.AGENT_STAGING_OUTPUT_PENDING,\n                            rpc.AGENT_STAGING_OUTPUT_QUEUE, self.work)", "        self.register_input(rps.AGENT_STAGING_OUTPUT,\n                            rpc.AGENT_STAGING_OUTPUT_QUEUE, self.work)")]),
    dict(name='R05.1 agent relay drops the return route', rules=('R05.1',), edits=[
        (_A0, "        self.register_output(rps.TMGR_STAGING_OUTPUT_PENDING,\n                             rpc.PROXY_TASK_QUEUE)\n", "")]),
    dict(name='R05.1 tmgr scheduler pushes the wrong state', rules=('R05.1',), edits=[
        (_TS, "                        self.advance(early_tasks, rps.TMGR_STAGING_INPUT_PENDING,\n                                     publish=True, push=True)", "                        self.advance(early_tasks, rps.TMGR_STAGING_INPUT,\n                                     publish=True, push=True)")]),
    dict(name='R05.1 input worker method does not exist', rules=('R05.1',), edits=[
        (_AO, "                            rpc.AGENT_STAGING_OUTPUT_QUEUE, self.work)", "                            rpc.AGENT_STAGING_OUTPUT_QUEUE, self.do_work)")]),
    dict(name='R05.2 exit code test inverted', rules=('R05.2',), edits=[
        (_P, "                if exit_code == 0:\n                    # The task finished cleanly", "                if exit_code != 0:\n                    # The task finished cleanly")]),
    dict(name='R05.2 every exited task is DONE', rules=('R05.2',), edits=[
        (_P, "                    task['exception_detail'] = 'exit code: %s' % exit_code\n                    task['target_state']     = rps.FAILED\n", "                    task['exception_detail'] = 'exit code: %s' % exit_code\n                    task['target_state']     = rps.DONE\n")]),
    dict(name='R05.2 failing exit code not recorded', rules=('R05.2',), edits=[
        (_P, "                    # task failed (we still run staging output)\n                    task['exit_code']        = exit_code\n", "                    # task failed (we still run staging output)\n")]),
    dict(name='R05.2 failing task has no exception', rules=('R05.2',), edits=[
        (_P, "                    task['exception']        = 'RuntimeError(\"task failed\")'\n", "")]),
    dict(name='R05.2 signalled processes count as success', rules=('R05.2',), edits=[
        (_P, "                if exit_code == 0:\n                    # The task finished cleanly", "                if exit_code <= 0:\n                    # The task finished cleanly")],
         note='<= 0: negative codes (killed by signal) become DONE'),
    dict(name='R05.2 client ignores target_state', rules=('R05.2',), edits=[
        (_TO, "            for task in no_staging_tasks:\n                task['state'] = task['target_state']\n", "            for task in no_staging_tasks:\n                task['state'] = rps.DONE\n")]),
    dict(name='R05.2 staging error ends as DONE', rules=('R05.2',), edits=[
        (_TO, "                self.advance(task, rps.FAILED, publish=True, push=False)", "                self.advance(task, rps.DONE, publish=True, push=False)")]),
    dict(name='R05.3 worker errors end the component', rules=('R05.3',), edits=[
        (_U, "                    if state:\n                        for thing in things:\n                            thing['exception']        = repr(e)", "                    raise\n                    if state:\n                        for thing in things:\n                            thing['exception']        = repr(e)")]),
    dict(name='R05.3 failed things are not handed on', rules=('R05.3',), edits=[
        (_U, "                        self.advance(things, rps.FAILED, publish=True,\n                                                         push=False)\n\n        # keep work_cb registered", "        # keep work_cb registered")]),
    dict(name='R05.3 worker exception not recorded', rules=('R05.3',), edits=[
        (_U, "                            thing['exception']        = repr(e)\n                            thing['exception_detail'] = \\\n                                             '\\n'.join(ru.get_exception_trace())\n", "                            pass\n")]),
    dict(name='R05.3 only KeyError is caught around the worker', rules=('R05.3',), edits=[
        (_U, "                except Exception as e:\n\n                    # this is not fatal -- only the 'things' fail, not", "                except KeyError as e:\n\n                    # this is not fatal -- only the 'things' fail, not")]),
    dict(name='R05.3 work loop ends on the first error', rules=('R05.3',), edits=[
        (_U, "            except:\n                self._log.exception('work cb error [ignored]')", "            except:\n                self._log.exception('work cb error')\n                break")]),
    dict(name='R05.4 agent input stager: one failure fails the bulk', rules=('R05.4',), edits=[
        (_AI, "            try:\n                self._handle_task_staging(task, actionables)\n\n            except Exception as e:\n                self._log.exception('staging error')\n                task['exception']        = repr(e)\n                task['exception_detail'] = '\\n'.join(ru.get_exception_trace())\n\n                self.advance(task, rps.FAILED)\n", "            self._handle_task_staging(task, actionables)\n")]),
    dict(name='R05.4 agent output stager swallows the error', rules=('R05.4',), edits=[
        (_AO, "                self._log.exception('staging error')\n                task['exception']        = repr(e)\n                task['exception_detail'] = '\\n'.join(ru.get_exception_trace())\n\n                self.advance(task, rps.FAILED)", "                self._log.exception('staging error')\n                task['exception']        = repr(e)\n                task['exception_detail'] = '\\n'.join(ru.get_exception_trace())")]),
    dict(name='R05.4 tmgr input stager fails the wrong list', rules=('R05.4',), edits=[
        (_TI, "        self._advance_tasks(to_fail, state=rps.FAILED, push=False)", "        self._advance_tasks(to_fail, state=rps.CANCELED, push=False)")]),
    dict(name='R05.4 tmgr output stager does not record the error (F21 reverted)', rules=('R05.4',), edits=[
        (_TO, "                task['exception']        = repr(e)\n                task['exception_detail'] = '\\n'.join(ru.get_exception_trace())\n                self.advance(task, rps.FAILED, publish=True, push=False)", "                self.advance(task, rps.FAILED, publish=True, push=False)")]),
    dict(name='R05.4 exception recorded on the bulk, not the task', rules=('R05.4',), edits=[
        (_AI, "                task['exception']        = repr(e)\n                task['exception_detail'] = '\\n'.join(ru.get_exception_trace())\n\n                self.advance(task, rps.FAILED)", "                tasks[0]['exception']        = repr(e)\n\n                self.advance(task, rps.FAILED)")]),
    dict(name='R05.4b staged task advanced twice (F20 reverted)', rules=('R05.4b',), edits=[
        (_TO, "                self._handle_task(task, actionables)\n            except Exception as e:", "                self._handle_task(task, actionables)\n                self.advance(task, publish=True, push=True)\n            except Exception as e:")]),
    dict(name='R05.4b staged task never advanced', rules=('R05.4b',), edits=[
        (_TO, "        task['state'] = task['target_state']\n        self.advance(task, publish=True, push=True)\n\n\n# ---", "        task['state'] = task['target_state']\n\n\n# ---")]),
    dict(name='R05.5 agent pushes failed tasks downstream', rules=('R05.5',), edits=[
        (_U, "                thing['control']      = 'tmgr_pending'\n                thing['$all']         = True\n\n              # FIXME: something like this should be done on `stage_on_error`\n              # if thing['description'].get('stage_on_error'):\n              #     thing['state'] = rps.TMGR_STAGING_OUTPUT_PENDING\n              # else:\n              #     thing['state'] = state\n\n            publish = True\n            push    = False\n", "                thing['control']      = 'tmgr_pending'\n                thing['$all']         = True\n\n            publish = True\n")]),
    dict(name='R05.5 agent does not hand the full task back', rules=('R05.5',), edits=[
        (_U, "                thing['control']      = 'tmgr_pending'\n                thing['$all']         = True\n", "                thing['control']      = 'tmgr_pending'\n")]),
    dict(name='R05.5 client does not record target_state', rules=('R05.5',), edits=[
        (_U, "            for thing in things:\n                thing['target_state'] = state\n\n            publish = True\n            push    = False\n\n        super().advance(things=things, state=state, publish=publish, push=push,\n                        qname=qname, ts=ts, fwd=fwd, prof=prof)\n\n\n# ------------------------------------------------------------------------------\n#\nclass AgentComponent", "            publish = True\n            push    = False\n\n        super().advance(things=things, state=state, publish=publish, push=push,\n                        qname=qname, ts=ts, fwd=fwd, prof=prof)\n\n\n# ------------------------------------------------------------------------------\n#\nclass AgentComponent")]),
    dict(name='R05.5 only FAILED is special-cased', rules=('R05.5',), edits=[
        (_U, "        # CANCELED and FAILED is handled on the client side\n        # FIXME: what if `state==None` and `task['state']` is set instead?\n        if state in [rps.FAILED, rps.CANCELED]:", "        # CANCELED and FAILED is handled on the client side\n        # FIXME: what if `state==None` and `task['state']` is set instead?\n        if state in [rps.FAILED]:")]),
    dict(name='R05.6 startup report arms an immediate kill (seed C05-b)', rules=('R05.6',), edits=[
        (_EB, "                cancel_time = task['description'].get('timeout', 0.)\n                if cancel_time:\n                    cancel_time += time.time()\n", "                cancel_time = time.time() + task['description'].get('timeout', 0.)\n")]),
    dict(name='R05.6 watcher kills entries without kill time', rules=('R05.6',), edits=[
        (_EB, "                    if cancel_time:\n                        self._log.warning('task %s timed out after %.2f seconds',\n                                          task['uid'], now - cancel_time)\n                        self._prof.prof('task_timeout', uid=task['uid'])\n                        self.cancel_task(task=task)", "                    if True:\n                        self._prof.prof('task_timeout', uid=task['uid'])\n                        self.cancel_task(task=task)")]),
    dict(name='R07.2 cancel without ownership test (seed C05-a)', rules=('R07.2',), edits=[
        (_P, "            if tid not in self._tasks:\n                return\n            try:\n                del self._tasks[tid]\n            except KeyError:\n                pass\n\n        # task is still running", "            self._tasks.pop(tid, None)\n\n        # task is still running")]),
    dict(name='R05.7 stage_on_error tasks skip the failure in the agent output stager (seed C05-c)', rules=('R05.7',), edits=[
        (_AO, "                self._log.exception('staging error')\n                task['exception']        = repr(e)\n", "                self._log.exception('staging error')\n\n                if task['description'].get('stage_on_error'):\n                    self.advance(task, rps.TMGR_STAGING_OUTPUT_PENDING,\n                                       publish=True, push=True)\n                    continue\n\n                task['exception']        = repr(e)\n")]),
    dict(name='R05.7 seed C05-c with hoisted flag and if/else', rules=('R05.7',), edits=[
        (_AO, "                self._log.exception('staging error')\n                task['exception']        = repr(e)\n                task['exception_detail'] = '\\n'.join(ru.get_exception_trace())\n\n                self.advance(task, rps.FAILED)", "                self._log.exception('staging error')\n                best_effort = task['description'].get('stage_on_error')\n                next_state  = rps.TMGR_STAGING_OUTPUT_PENDING\n                if not best_effort:\n                    task['exception']        = repr(e)\n                    task['exception_detail'] = '\\n'.join(ru.get_exception_trace())\n                    self.advance(task, rps.FAILED)\n                else:\n                    self.advance(task, next_state, publish=True, push=True)")]),
    dict(name='R05.7 stage_on_error guard with the wrong polarity of the outcome test', rules=('R05.7',), edits=[
        (_AO, "                self._log.exception('staging error')\n                task['exception']        = repr(e)\n", "                self._log.exception('staging error')\n\n                if task['target_state'] == rps.DONE and \\\n                        task['description'].get('stage_on_error'):\n                    self.advance(task, rps.TMGR_STAGING_OUTPUT_PENDING,\n                                       publish=True, push=True)\n                    continue\n\n                task['exception']        = repr(e)\n")]),
    dict(name='R05.7 stage_on_error tasks are dropped by the handler', rules=('R05.7',), edits=[
        (_AO, "                self._log.exception('staging error')\n                task['exception']        = repr(e)\n", "                self._log.exception('staging error')\n                if task['description'].get('stage_on_error'):\n                    continue\n                task['exception']        = repr(e)\n")]),
    dict(name='R05.7 executor sends a task that could not be launched to output staging', rules=('R05.7',), edits=[
        (_P, "                self.publish(rpc.AGENT_UNSCHEDULE_PUBSUB, task)\n\n                self.advance_tasks(task, rps.FAILED, publish=True, push=False)\n\n\n    # --------------------------------------------------------------------------\n    #\n    def _handle_task(self, task):", "                self.publish(rpc.AGENT_UNSCHEDULE_PUBSUB, task)\n\n                # collect stdout / stderr of the launch attempt\n                self.advance_tasks(task, rps.AGENT_STAGING_OUTPUT_PENDING,\n                                   publish=True, push=True)\n\n\n    # --------------------------------------------------------------------------\n    #\n    def _handle_task(self, task):")]),
    dict(name='R05.7 tmgr input stager forwards tasks whose staging failed', rules=('R05.7',), edits=[
        (_TI, "                    task['exception_detail'] = '\\n'.join(ru.get_exception_trace())\n                    to_fail.append(task)\n", "                    task['exception_detail'] = '\\n'.join(ru.get_exception_trace())\n                    if task['description'].get('stage_on_error'):\n                        self._advance_tasks([task], pid)\n                    else:\n                        to_fail.append(task)\n")]),
    dict(name='R05.7 agent input stager fails optional-staging tasks before recording the error', rules=('R05.7',), edits=[
        (_AI, "                self._log.exception('staging error')\n                task['exception']        = repr(e)\n", "                self._log.exception('staging error')\n                if task['description'].get('stage_on_error'):\n                    self.advance(task, rps.FAILED)\n                    continue\n                task['exception']        = repr(e)\n")]),
    dict(name='R05.8 early-bound tasks released only for pilots without an entry (seed C05-d)', rules=('R05.8',), edits=[
        (_TS, "            with self._pilots_lock:\n\n                for pilot in pilots:\n\n                    pid = pilot['uid']\n\n                    if pid in self._pilots:\n                        if self._pilots[pid]['role'] == ADDED:\n                            raise ValueError('pilot already added (%s)' % pid)\n", "            with self._pilots_lock:\n\n                new_pilots = list()\n\n                for pilot in pilots:\n\n                    pid = pilot['uid']\n\n                    if pid in self._pilots:\n                        if self._pilots[pid]['role'] == ADDED:\n                            raise ValueError('pilot already added (%s)' % pid)\n"),
        (_TS, "                                             'info'  : dict()\n                                            }\n\n                    self._pilots[pid]['role']  = ADDED\n", "                                             'info'  : dict()\n                                            }\n                        new_pilots.append(pilot)\n\n                    self._pilots[pid]['role']  = ADDED\n"),
        (_TS, "                self._update_pilot_states(pilots)\n\n                for pilot in pilots:\n\n                    pid = pilot['uid']\n\n                    # if we have any early_bound tasks waiting for this pilots,\n                    # advance them now\n                    early_tasks = self._early.get(pid)\n                    if early_tasks:\n", "                self._update_pilot_states(pilots)\n\n                for pilot in new_pilots:\n\n                    pid = pilot['uid']\n\n                    # if we have any early_bound tasks waiting for this pilots,\n                    # advance them now\n                    early_tasks = self._early.get(pid)\n                    if early_tasks:\n")]),
    dict(name='R05.8 early-bound tasks released only for pilots that are already active', rules=('R05.8',), edits=[
        (_TS, "                self._update_pilot_states(pilots)\n\n                for pilot in pilots:\n\n                    pid = pilot['uid']\n\n                    # if we have any early_bound tasks waiting for this pilots,\n                    # advance them now\n                    early_tasks = self._early.get(pid)\n                    if early_tasks:\n", "                self._update_pilot_states(pilots)\n\n                usable = [p for p in pilots\n                            if self._pilots[p['uid']]['state'] == rps.PMGR_ACTIVE]\n                for pilot in usable:\n\n                    pid = pilot['uid']\n\n                    # if we have any early_bound tasks waiting for this pilots,\n                    # advance them now\n                    early_tasks = self._early.get(pid)\n                    if early_tasks:\n")]),
    dict(name='R05.8 release skipped for pilots which were known before (guard in the loop body)', rules=('R05.8',), edits=[
        (_TS, "            with self._pilots_lock:\n\n                for pilot in pilots:\n\n                    pid = pilot['uid']\n\n                    if pid in self._pilots:\n                        if self._pilots[pid]['role'] == ADDED:\n                            raise ValueError('pilot already added (%s)' % pid)\n", "            with self._pilots_lock:\n\n                known = set(self._pilots)\n\n                for pilot in pilots:\n\n                    pid = pilot['uid']\n\n                    if pid in self._pilots:\n                        if self._pilots[pid]['role'] == ADDED:\n                            raise ValueError('pilot already added (%s)' % pid)\n"),
        (_TS, "                self._update_pilot_states(pilots)\n\n                for pilot in pilots:\n\n                    pid = pilot['uid']\n\n                    # if we have any early_bound tasks waiting for this pilots,\n                    # advance them now\n                    early_tasks = self._early.get(pid)\n                    if early_tasks:\n", "                self._update_pilot_states(pilots)\n\n                for pilot in pilots:\n\n                    pid = pilot['uid']\n                    if pid in known:\n                        continue\n\n                    # if we have any early_bound tasks waiting for this pilots,\n                    # advance them now\n                    early_tasks = self._early.get(pid)\n                    if early_tasks:\n")]),
    dict(name='R05.8 add_pilots does not release the early-bound tasks', rules=('R05.8',), edits=[
        (_TS, "                self._update_pilot_states(pilots)\n\n                for pilot in pilots:\n\n                    pid = pilot['uid']\n\n                    # if we have any early_bound tasks waiting for this pilots,\n                    # advance them now\n                    early_tasks = self._early.get(pid)\n                    if early_tasks:\n\n                        for task in early_tasks:\n                            self._assign_pilot(task, pilot)\n\n                        self.advance(early_tasks, rps.TMGR_STAGING_INPUT_PENDING,\n                                     publish=True, push=True)\n\n                        # these tasks are on their way now: forget them, or\n                        # a pilot which gets removed and added again would\n                        # receive them a second time\n                        del self._early[pid]\n", '                self._update_pilot_states(pilots)\n')]),
    dict(name='R05.8 release moved into the branch that creates the pilot entry', rules=('R05.8',), edits=[
        (_TS, "                                             'info'  : dict()\n                                            }\n", "                                             'info'  : dict()\n                                            }\n                        early_tasks = self._early.pop(pid, None)\n                        if early_tasks:\n                            for task in early_tasks:\n                                self._assign_pilot(task, pilot)\n                            self.advance(early_tasks,\n                                         rps.TMGR_STAGING_INPUT_PENDING,\n                                         publish=True, push=True)\n"),
        (_TS, "                self._update_pilot_states(pilots)\n\n                for pilot in pilots:\n\n                    pid = pilot['uid']\n\n                    # if we have any early_bound tasks waiting for this pilots,\n                    # advance them now\n                    early_tasks = self._early.get(pid)\n                    if early_tasks:\n\n                        for task in early_tasks:\n                            self._assign_pilot(task, pilot)\n\n                        self.advance(early_tasks, rps.TMGR_STAGING_INPUT_PENDING,\n                                     publish=True, push=True)\n\n                        # these tasks are on their way now: forget them, or\n                        # a pilot which gets removed and added again would\n                        # receive them a second time\n                        del self._early[pid]\n", '                self._update_pilot_states(pilots)\n')]),
]

_R055_AGENT = "                thing['target_state'] = state\n                thing['control']      = 'tmgr_pending'\n                thing['$all']         = True\n"
_R055_FLAGS = "            publish = True\n            push    = False\n\n        super().advance(things=things, state=state, publish=publish, push=push,\n                        qname=qname, ts=ts, fwd=fwd, prof=prof)\n\n\n# ------------------------------------------------------------------------------\n#\nclass AgentComponent"

MUTATIONS += [
    dict(name='R05.5 hand-back as one update() call that forgets $all', rules=('R05.5',), edits=[
        (_U, _R055_AGENT, "                thing.update({'target_state': state,\n                              'control'     : 'tmgr_pending'})\n")]),
    dict(name='R05.5 update() records the old state as target_state', rules=('R05.5',), edits=[
        (_U, _R055_AGENT, "                thing.update({'target_state': thing['state'],\n                              'control'     : 'tmgr_pending',\n                              '$all'        : True})\n")]),
]

SILENT = [
    dict(name='R05.5 hand-back recorded with one update() call (seed C16-r6)', edits=[
        (_U, _R055_AGENT, "                thing.update({'target_state': state,\n                              'control'     : 'tmgr_pending',\n                              '$all'        : True})\n")]),
    dict(name='R05.5 flags forced by a tuple assignment, update() with keywords', edits=[
        (_U, "            for thing in things:\n                thing['target_state'] = state\n\n            publish = True", "            for thing in things:\n                thing.update(target_state=state)\n\n            publish = True"),
        (_U, _R055_FLAGS, _R055_FLAGS.replace("            publish = True\n            push    = False\n", "            publish, push = True, False\n"))]),
    dict(name='R05.5 hand-back in a comprehension over a helper method', edits=[
        (_U, "            for thing in things:\n" + _R055_AGENT, "            [self._hand_back(thing, state) for thing in things]\n"),
        (_U, "    # agent side state advances are forwarded by default (fwd=True)\n", "    @staticmethod\n    def _hand_back(task, final):\n        task['$all'] = True\n        task.update({'target_state': final, 'control': 'tmgr_pending'})\n\n    # agent side state advances are forwarded by default (fwd=True)\n")]),
    dict(name='exit code test as truthiness', edits=[
        (_P, "                if exit_code == 0:\n                    # The task finished cleanly", "                if not exit_code:\n                    # The task finished cleanly")]),
    dict(name='worker handler catches BaseException', edits=[
        (_U, "                except Exception as e:\n\n                    # this is not fatal -- only the 'things' fail, not", "                except BaseException as e:\n\n                    # this is not fatal -- only the 'things' fail, not")]),
    dict(name='failed tasks collected and advanced after the loop (agent input)', edits=[
        (_AI, "                task['exception_detail'] = '\\n'.join(ru.get_exception_trace())\n\n                self.advance(task, rps.FAILED)\n", "                task['exception_detail'] = '\\n'.join(ru.get_exception_trace())\n                to_fail.append(task)\n\n        self.advance(to_fail, rps.FAILED)\n"),
        (_AI, "        for task, actionables in staging_tasks:\n            try:\n                self._handle_task_staging(task, actionables)", "        to_fail = list()\n        for task, actionables in staging_tasks:\n            try:\n                self._handle_task_staging(task, actionables)")]),
    dict(name='route registration with state list', edits=[
        (_AO, "        self.register_input(rps.AGENT_STAGING_OUTPUT_PENDING,\n                            rpc.AGENT_STAGING_OUTPUT_QUEUE, self.work)", "        self.register_input([rps.AGENT_STAGING_OUTPUT_PENDING],\n                            rpc.AGENT_STAGING_OUTPUT_QUEUE, self.work)")]),
    dict(name='flags forced in the other order', edits=[
        (_U, "            publish = True\n            push    = False\n\n        super().advance(things=things, state=state, publish=publish, push=push,\n                        qname=qname, ts=ts, fwd=fwd, prof=prof)\n\n\n# ------------------------------------------------------------------------------\n#\nclass AgentComponent", "            push    = False\n            publish = True\n\n        super().advance(things=things, state=state, publish=publish, push=push,\n                        qname=qname, ts=ts, fwd=fwd, prof=prof)\n\n\n# ------------------------------------------------------------------------------\n#\nclass AgentComponent")]),
    dict(name='exit code recorded before the branch', edits=[
        (_P, "                    task['exit_code']    = exit_code\n                    task['target_state'] = rps.DONE\n", "                    task['target_state'] = rps.DONE\n"),
        (_P, "                    # task failed (we still run staging output)\n                    task['exit_code']        = exit_code\n", "                    # task failed (we still run staging output)\n"),
        (_P, "                self._prof.prof('unschedule_start', uid=tid)\n\n                if exit_code == 0:", "                self._prof.prof('unschedule_start', uid=tid)\n                task['exit_code'] = exit_code\n\n                if exit_code == 0:")]),
    dict(name='R05.7 handler: renamed exception, hoisted trace, record statements swapped', edits=[
        (_AO, "            except Exception as e:\n                self._log.exception('staging error')\n                task['exception']        = repr(e)\n                task['exception_detail'] = '\\n'.join(ru.get_exception_trace())\n\n                self.advance(task, rps.FAILED)", "            except Exception as err:\n                trace = '\\n'.join(ru.get_exception_trace())\n                self._log.exception('staging error')\n                task['exception_detail'] = trace\n                task['exception']        = repr(err)\n\n                self.advance(task, rps.FAILED)")]),
    dict(name='R05.7 handler body extracted into a helper method', edits=[
        (_AO, "                self._log.exception('staging error')\n                task['exception']        = repr(e)\n                task['exception_detail'] = '\\n'.join(ru.get_exception_trace())\n\n                self.advance(task, rps.FAILED)\n\n\n", "                self._log.exception('staging error')\n                self._staging_failed(task, e, ru.get_exception_trace())\n\n\n    # --------------------------------------------------------------------------\n    #\n    def _staging_failed(self, task, exc, trace):\n\n        task['exception']        = repr(exc)\n        task['exception_detail'] = '\\n'.join(trace)\n\n        self.advance(task, rps.FAILED)\n\n\n")]),
    dict(name='R05.7 failed tasks collected (before the record) and failed after the loop (agent output)', edits=[
        (_AO, "                self._log.exception('staging error')\n                task['exception']        = repr(e)\n                task['exception_detail'] = '\\n'.join(ru.get_exception_trace())\n\n                self.advance(task, rps.FAILED)", "                self._log.exception('staging error')\n                to_fail.append(task)\n                task['exception']        = repr(e)\n                task['exception_detail'] = '\\n'.join(ru.get_exception_trace())\n\n        if to_fail:\n            self.advance(to_fail, rps.FAILED)"),
        (_AO, "        for task, actionables in staging_tasks:\n            try:\n                self._handle_task_staging(task, actionables)", "        to_fail = list()\n        for task, actionables in staging_tasks:\n            try:\n                self._handle_task_staging(task, actionables)")]),
    dict(name='R05.7 best-effort staging only for tasks which failed already (hoisted outcome test)', edits=[
        (_AO, "                self._log.exception('staging error')\n                task['exception']        = repr(e)\n", "                self._log.exception('staging error')\n\n                outcome = task['target_state']\n                if outcome != rps.DONE and \\\n                        task['description'].get('stage_on_error'):\n                    # the task failed on its own: keep its error\n                    self.advance(task, rps.TMGR_STAGING_OUTPUT_PENDING,\n                                       publish=True, push=True)\n                    continue\n\n                task['exception']        = repr(e)\n")],
         note='changes behaviour, not the property: the task ends FAILED with its own error recorded'),
    dict(name='R05.7 best-effort staging for failed tasks, early-continue form with `in`', edits=[
        (_AO, "                self._log.exception('staging error')\n                task['exception']        = repr(e)\n                task['exception_detail'] = '\\n'.join(ru.get_exception_trace())\n\n                self.advance(task, rps.FAILED)", "                self._log.exception('staging error')\n                if task['target_state'] == rps.DONE or \\\n                        not task['description'].get('stage_on_error'):\n                    task['exception']        = repr(e)\n                    task['exception_detail'] = '\\n'.join(ru.get_exception_trace())\n                    self.advance(task, rps.FAILED)\n                    continue\n                self.advance(task, rps.TMGR_STAGING_OUTPUT_PENDING,\n                                   publish=True, push=True)")],
         note='changes behaviour, not the property'),
    dict(name='R05.7 executor handler fails through a keyword call', edits=[
        (_P, "                self.publish(rpc.AGENT_UNSCHEDULE_PUBSUB, task)\n\n                self.advance_tasks(task, rps.FAILED, publish=True, push=False)\n\n\n    # --------------------------------------------------------------------------\n    #\n    def _handle_task(self, task):", "                self.publish(rpc.AGENT_UNSCHEDULE_PUBSUB, task)\n\n                self.advance_tasks(tasks=[task], state=rps.FAILED, push=False,\n                                   publish=True)\n\n\n    # --------------------------------------------------------------------------\n    #\n    def _handle_task(self, task):")]),
    dict(name='R05.8 release loop: renamed locals, early-continue form, pop instead of get + del', edits=[
        (_TS, "                self._update_pilot_states(pilots)\n\n                for pilot in pilots:\n\n                    pid = pilot['uid']\n\n                    # if we have any early_bound tasks waiting for this pilots,\n                    # advance them now\n                    early_tasks = self._early.get(pid)\n                    if early_tasks:\n\n                        for task in early_tasks:\n                            self._assign_pilot(task, pilot)\n\n                        self.advance(early_tasks, rps.TMGR_STAGING_INPUT_PENDING,\n                                     publish=True, push=True)\n\n                        # these tasks are on their way now: forget them, or\n                        # a pilot which gets removed and added again would\n                        # receive them a second time\n                        del self._early[pid]\n", "                self._update_pilot_states(pilots)\n\n                for added in pilots:\n\n                    key     = added['uid']\n                    waiting = self._early.pop(key, None)\n                    if not waiting:\n                        continue\n\n                    for task in waiting:\n                        self._assign_pilot(task, added)\n\n                    self.advance(waiting, rps.TMGR_STAGING_INPUT_PENDING,\n                                 publish=True, push=True)\n")]),
    dict(name='R05.8 release loop iterates the pilot ids (comprehension) and looks the pilot up', edits=[
        (_TS, "                self._update_pilot_states(pilots)\n\n                for pilot in pilots:\n\n                    pid = pilot['uid']\n\n                    # if we have any early_bound tasks waiting for this pilots,\n                    # advance them now\n                    early_tasks = self._early.get(pid)\n                    if early_tasks:\n", "                self._update_pilot_states(pilots)\n\n                pids = [p['uid'] for p in pilots]\n                for pid in pids:\n\n                    pilot = self._pilots[pid]['pilot']\n\n                    # if we have any early_bound tasks waiting for this pilots,\n                    # advance them now\n                    early_tasks = self._early.get(pid)\n                    if early_tasks:\n")]),
    dict(name='R05.8 release loop extracted into a helper method', edits=[
        (_TS, "                self._update_pilot_states(pilots)\n\n                for pilot in pilots:\n\n                    pid = pilot['uid']\n\n                    # if we have any early_bound tasks waiting for this pilots,\n                    # advance them now\n                    early_tasks = self._early.get(pid)\n                    if early_tasks:\n\n                        for task in early_tasks:\n                            self._assign_pilot(task, pilot)\n\n                        self.advance(early_tasks, rps.TMGR_STAGING_INPUT_PENDING,\n                                     publish=True, push=True)\n\n                        # these tasks are on their way now: forget them, or\n                        # a pilot which gets removed and added again would\n                        # receive them a second time\n                        del self._early[pid]\n", '                self._update_pilot_states(pilots)\n                self._release_early(pilots)\n'),
        (_TS, '    # --------------------------------------------------------------------------\n    #\n    def _configure(self):\n        raise NotImplementedError("_configure() missing for \'%s\'" % self.uid)\n', '    # --------------------------------------------------------------------------\n    #\n    def _release_early(self, pilots):\n\n        for pilot in pilots:\n\n            pid = pilot[\'uid\']\n\n            early_tasks = self._early.get(pid)\n            if early_tasks:\n\n                for task in early_tasks:\n                    self._assign_pilot(task, pilot)\n\n                self.advance(early_tasks, rps.TMGR_STAGING_INPUT_PENDING,\n                             publish=True, push=True)\n                del self._early[pid]\n\n\n    # --------------------------------------------------------------------------\n    #\n    def _configure(self):\n        raise NotImplementedError("_configure() missing for \'%s\'" % self.uid)\n')]),
    dict(name='R05.8 release loop only over pilots which have parked tasks', edits=[
        (_TS, "                self._update_pilot_states(pilots)\n\n                for pilot in pilots:\n\n                    pid = pilot['uid']\n\n                    # if we have any early_bound tasks waiting for this pilots,\n                    # advance them now\n                    early_tasks = self._early.get(pid)\n                    if early_tasks:\n", "                self._update_pilot_states(pilots)\n\n                waited_for = [p for p in pilots if p['uid'] in self._early]\n                for pilot in waited_for:\n\n                    pid = pilot['uid']\n\n                    # if we have any early_bound tasks waiting for this pilots,\n                    # advance them now\n                    early_tasks = self._early.get(pid)\n                    if early_tasks:\n")]),
    dict(name='R05.8 release loop over the keys of the pool, restricted to the added pilots', edits=[
        (_TS, "                self._update_pilot_states(pilots)\n\n                for pilot in pilots:\n\n                    pid = pilot['uid']\n\n                    # if we have any early_bound tasks waiting for this pilots,\n                    # advance them now\n                    early_tasks = self._early.get(pid)\n                    if early_tasks:\n\n                        for task in early_tasks:\n                            self._assign_pilot(task, pilot)\n\n                        self.advance(early_tasks, rps.TMGR_STAGING_INPUT_PENDING,\n                                     publish=True, push=True)\n\n                        # these tasks are on their way now: forget them, or\n                        # a pilot which gets removed and added again would\n                        # receive them a second time\n                        del self._early[pid]\n", "                self._update_pilot_states(pilots)\n\n                added = {p['uid']: p for p in pilots}\n                for pid in list(self._early):\n\n                    if pid not in added:\n                        continue\n\n                    pilot       = added[pid]\n                    early_tasks = self._early.pop(pid)\n\n                    for task in early_tasks:\n                        self._assign_pilot(task, pilot)\n\n                    self.advance(early_tasks, rps.TMGR_STAGING_INPUT_PENDING,\n                                 publish=True, push=True)\n")]),
    dict(name='R05.8 new pilots collected for logging only, release loop unchanged', edits=[
        (_TS, "            with self._pilots_lock:\n\n                for pilot in pilots:\n\n                    pid = pilot['uid']\n\n                    if pid in self._pilots:\n                        if self._pilots[pid]['role'] == ADDED:\n                            raise ValueError('pilot already added (%s)' % pid)\n", "            with self._pilots_lock:\n\n                new_pilots = list()\n\n                for pilot in pilots:\n\n                    pid = pilot['uid']\n\n                    if pid in self._pilots:\n                        if self._pilots[pid]['role'] == ADDED:\n                            raise ValueError('pilot already added (%s)' % pid)\n"),
        (_TS, "                                             'info'  : dict()\n                                            }\n\n                    self._pilots[pid]['role']  = ADDED\n", "                                             'info'  : dict()\n                                            }\n                        new_pilots.append(pid)\n\n                    self._pilots[pid]['role']  = ADDED\n"),
        (_TS, "                self._update_pilot_states(pilots)\n\n                for pilot in pilots:\n\n                    pid = pilot['uid']\n\n                    # if we have any early_bound tasks waiting for this pilots,\n                    # advance them now\n                    early_tasks = self._early.get(pid)\n                    if early_tasks:\n", "                self._log.debug('new pilots: %s', new_pilots)\n                self._update_pilot_states(pilots)\n\n                for pilot in pilots:\n\n                    pid = pilot['uid']\n\n                    # if we have any early_bound tasks waiting for this pilots,\n                    # advance them now\n                    early_tasks = self._early.get(pid)\n                    if early_tasks:\n")]),
    dict(name='R05.3 work loop tests the result of work_cb directly', edits=[
        (_U, "                ret = self.work_cb()\n                if not ret:\n                    break", "                if not self.work_cb():\n                    break")]),
    dict(name='R05.8 pilot entry updated through a local alias', edits=[
        (_TS, "                    self._pilots[pid]['role']  = ADDED\n                    self._pilots[pid]['pilot'] = pilot\n", "                    entry = self._pilots[pid]\n                    entry['role']  = ADDED\n                    entry['pilot'] = pilot\n")]),
    dict(name='R05.8 parking test on the cached entry, early-continue form', edits=[
        (_TS, "                    pilot = self._pilots.get(pid, {}).get('pilot')\n                    if pilot:\n                        self._assign_pilot(task, pilot)\n                        self.advance(task, rps.TMGR_STAGING_INPUT_PENDING,\n                                     publish=True, push=True)\n\n                    else:\n", "                    entry = self._pilots.get(pid)\n                    if entry and entry['pilot']:\n                        self._assign_pilot(task, entry['pilot'])\n                        self.advance(task, rps.TMGR_STAGING_INPUT_PENDING,\n                                     publish=True, push=True)\n                        continue\n\n                    if True:\n")]),
]

# R05.9 (R06.5 / R06.6 re-evaluated): the variants of the C06 module which
# concern the number of final states a task reaches
from . import c06 as _c06                                       # noqa: E402

_TM = 'task_manager.py'

MUTATIONS += [
    dict(name='R05.9 FAILED / CANCELED notifications skip the progress function (seed C05-f)', rules=('R05.9',), edits=[
        (_TM, _c06._PROGRESS,
         "                    if target in [rps.CANCELED, rps.FAILED]:\n"
         "                        # no need to dig out the state progression\n"
         "                        passed = [target]\n\n"
         "                    else:\n"
         "                        target, passed = rps._task_state_progress(uid, current,\n"
         "                                                                  target)\n")],
         note='CANCELED then FAILED for one task (cancel raced a failing cancel path): two final callbacks, Task.state changes from CANCELED to FAILED'),
    dict(name='R05.9 only FAILED notifications skip the progress function, test on the notification', rules=('R05.9',), edits=[
        (_TM, _c06._PROGRESS,
         "                    target, passed = rps._task_state_progress(uid, current,\n"
         "                                                              target)\n\n"
         "                    if target == rps.CANCELED:\n"
         "                        passed = passed[-1:]\n\n"
         "                    if task_dict['state'] == rps.FAILED:\n"
         "                        passed = [rps.FAILED]\n")]),
    dict(name='R05.9 pilot-death callback fails tasks that are already CANCELED (seed C06-c)', rules=('R05.9',), edits=[
        (_TM, _c06._GUARD, ""), (_TM, _c06._CALL, _c06._CALL_CHANGED)],
         note='Task._update refuses only DONE and FAILED: a CANCELED task becomes FAILED'),
    dict(name='R05.9 pilot-death callback skips DONE / FAILED tasks only', rules=('R05.9',), edits=[
        (_TM, _c06._GTEST, "if task.state in [rps.DONE, rps.FAILED]:\n                        continue")]),
]

SILENT += [
    dict(name='R05.9 site: replayed list initialised before the try, copied after the progress call', edits=[
        (_TM, "                try:\n                    target, passed = rps._task_state_progress",
              "                passed = []\n                try:\n                    target, passed = rps._task_state_progress"),
        (_TM, "                        passed = passed[-1:]\n", "                        passed = passed[-1:]\n\n                    passed = list(passed)\n")]),
    dict(name='R05.9 site: truncation test as a chain of ==, renamed result', edits=[
        (_TM, _c06._PROGRESS,
         "                    reached, passed = rps._task_state_progress(uid, current,\n"
         "                                                               target)\n\n"
         "                    if reached == rps.CANCELED or reached == rps.FAILED:\n"
         "                        passed = passed[len(passed) - 1:]\n")]),
    dict(name='R05.9 site: truncation removed (intermediate states replayed for FAILED / CANCELED too)', edits=[
        (_TM, "                    if target in [rps.CANCELED, rps.FAILED]:\n                        # don't replay intermediate states\n                        passed = passed[-1:]\n", "")],
         note='changes which states are announced, not the number of final states'),
    dict(name='R05.9 site: pilot-death guard hoisted into a local / merged with the pilot test', edits=[
        (_TM, "                    if task.pilot != pid:\n                        continue\n\n" + _c06._GUARD,
              "                    tstate = task.state\n                    if task.pilot != pid or tstate in rps.FINAL:\n                        continue\n\n")]),
    dict(name='R05.9 sites: all of FINAL refused in Task._update instead of in the caller', edits=[
        (_TM, _c06._GUARD, ""), (_TM, _c06._CALL, _c06._CALL_CHANGED),
        ('task.py', _c06._STICKY, "        if current in rps.FINAL:")]),
]

# ------------------------------------------------------------------------------
# round 4: R05.7 on BaseComponent.work_cb, R05.4b sorting loop, R05.10 .. R05.13
#
_FX = 'agent/executing/flux.py'
_MA = 'raptor/master.py'
_RR = 'tmgr/scheduler/round_robin.py'

_WCB_REC  = ("                        for thing in things:\n"
             "                            thing['exception']        = repr(e)\n"
             "                            thing['exception_detail'] = \\\n"
             "                                             '\\n'.join(ru.get_exception_trace())\n"
             "\n")
_WCB_ADV  = ("                        self.advance(things, rps.FAILED, publish=True,\n"
             "                                                         push=False)\n"
             "\n")
_TO_SKIP  = ("                no_staging_tasks.append(task)\n"
             "                continue\n")
_TO_BULK  = "            self.advance(no_staging_tasks, publish=True, push=True)\n"
_MA_RET   = ("                if ret is None:\n"
             "                    ret = -1\n")
_MA_MAP   = ("                if int(ret) == 0: task['target_state'] = rps.DONE\n"
             "                else            : task['target_state'] = rps.FAILED\n")
_AC_SIG   = ("    def advance(self, things, state=None, publish=True, push=False, qname=None,\n"
             "                      ts=None, fwd=True, prof=True):\n"
             "\n"
             "        things = ru.as_list(things)\n"
             "\n"
             "        # CANCELED and FAILED is handled on the client side\n")
_AC_SUPER = ("              #     thing['state'] = state\n"
             "\n"
             "            publish = True\n"
             "            push    = False\n"
             "\n"
             "        super().advance(things=things, state=state, publish=publish, push=push,\n"
             "                        qname=qname, ts=ts, fwd=fwd, prof=prof)\n")
_TRUNC    = ("                    if target in [rps.CANCELED, rps.FAILED]:\n"
             "                        # don't replay intermediate states\n"
             "                        passed = passed[-1:]\n")
_REPLAY   = "                    for s in passed:\n"
_FX_H     = ("            except:\n"
             "                self._log.exception('LM flux submit failed for %s', tid)\n")
_MA_H     = ("        except:\n"
             "            self._log.exception('request cb failed')\n")
_RR_H     = ("                    self._log.exception('task schedule preparation failed')\n")

MUTATIONS += [
    # R05.7 (c) on the handler of the worker call
    dict(name='R05.7 work_cb fails the things before the exception is recorded (seed C05-g1)', rules=('R05.7',), edits=[
        (_U, _WCB_REC + _WCB_ADV, _WCB_ADV + _WCB_REC)],
         note='advance publishes the full thing at once and FAILED is final: Task.exception stays None'),
    dict(name='R05.7 work_cb fails thing by thing, each before its record', rules=('R05.7',), edits=[
        (_U, _WCB_REC + _WCB_ADV,
         "                        for thing in things:\n"
         "                            self.advance(thing, rps.FAILED, publish=True,\n"
         "                                                            push=False)\n"
         "                            thing['exception']        = repr(e)\n"
         "                            thing['exception_detail'] = \\\n"
         "                                             '\\n'.join(ru.get_exception_trace())\n\n")]),
    dict(name='R05.7 work_cb records the exception only for bulks of more than one thing', rules=('R05.7',), edits=[
        (_U, _WCB_REC,
         "                        if len(things) > 1:\n"
         "                            for thing in things:\n"
         "                                thing['exception']        = repr(e)\n"
         "                                thing['exception_detail'] = \\\n"
         "                                             '\\n'.join(ru.get_exception_trace())\n\n")]),
    dict(name='R05.7 work_cb: helper method fails the things before it records the exception', rules=('R05.7',), edits=[
        (_U, _WCB_REC + _WCB_ADV, "                        self._fail_things(things, e)\n\n"),
        (_U, "    # --------------------------------------------------------------------------\n    #\n    def advance(self, things, state=None, publish=True, push=False, qname=None,\n                              ts=None, fwd=False, prof=True):",
             "    # --------------------------------------------------------------------------\n    #\n"
             "    def _fail_things(self, things, exc):\n\n"
             "        self.advance(things, rps.FAILED, publish=True, push=False)\n\n"
             "        for thing in things:\n"
             "            thing['exception']        = repr(exc)\n"
             "            thing['exception_detail'] = '\\n'.join(ru.get_exception_trace())\n\n\n"
             "    # --------------------------------------------------------------------------\n    #\n    def advance(self, things, state=None, publish=True, push=False, qname=None,\n                              ts=None, fwd=False, prof=True):")]),
    # R05.10
    dict(name='R05.10 work_cb records the exception on the first thing only', rules=('R05.10', 'R05.7'), edits=[
        (_U, "                        for thing in things:\n                            thing['exception']        = repr(e)",
             "                        for thing in things[:1]:\n                            thing['exception']        = repr(e)")]),
    dict(name='R05.10 executor fails a task that could not be launched without the exception', rules=('R05.10',), edits=[
        (_P, "                self._log.exception(\"error running Task\")\n"
             "                task['exception']        = repr(e)\n"
             "                task['exception_detail'] = '\\n'.join(ru.get_exception_trace())\n",
             "                self._log.exception(\"error running Task\")\n")]),
    dict(name='R05.10 agent input stager records the exception on the bulk variable', rules=('R05.10',), edits=[
        (_AI, "                task['exception']        = repr(e)\n                task['exception_detail'] = '\\n'.join(ru.get_exception_trace())\n\n                self.advance(task, rps.FAILED)",
              "                tasks[0]['exception']        = repr(e)\n\n                self.advance(task, rps.FAILED)")]),
    # R05.4b sorting loop
    dict(name='R05.4b failed tasks fall through to the directive check (seed C05-g3)', rules=('R05.4b',), edits=[
        (_TO, _TO_SKIP, "                no_staging_tasks.append(task)\n")],
         note='a FAILED / CANCELED task is finalized twice'),
    dict(name='R05.4b tasks without TRANSFER directives are not collected', rules=('R05.4b',), edits=[
        (_TO, "                staging_tasks.append([task, actionables])\n            else:\n                no_staging_tasks.append(task)\n",
              "                staging_tasks.append([task, actionables])\n")]),
    dict(name='R05.4b skipped tasks are dropped (continue without collecting)', rules=('R05.4b',), edits=[
        (_TO, _TO_SKIP, "                continue\n")]),
    dict(name='R05.4b the bulk of tasks without staging is advanced twice', rules=('R05.4b',), edits=[
        (_TO, _TO_BULK, _TO_BULK + "\n        if no_staging_tasks:\n" + _TO_BULK)]),
    # R05.11
    dict(name='R05.11 a missing exit code counts as success (seed C05-g2)', rules=('R05.11',), edits=[
        (_MA, _MA_RET, "                if ret is None:\n                    ret = 0\n")]),
    dict(name='R05.11 negative exit codes (killed by signal) count as success', rules=('R05.11',), edits=[
        (_MA, "                if int(ret) == 0: task['target_state'] = rps.DONE", "                if int(ret) <= 0: task['target_state'] = rps.DONE")]),
    dict(name='R05.11 missing exit code tested by truthiness: DONE unless a code was set', rules=('R05.11',), edits=[
        (_MA, _MA_RET + "\n" + _MA_MAP,
         "                if ret: task['target_state'] = rps.FAILED\n"
         "                else  : task['target_state'] = rps.DONE\n")]),
    # R05.12
    dict(name='R05.12 agent side state updates are not forwarded by default (seed C05-g4)', rules=('R05.12',), edits=[
        (_U, _AC_SIG, _AC_SIG.replace("fwd=True", "fwd=False"))]),
    dict(name='R05.12 FAILED / CANCELED of an agent component are kept on the pilot', rules=('R05.12',), edits=[
        (_U, _AC_SUPER, _AC_SUPER.replace("            push    = False\n", "            push    = False\n            fwd     = False\n"))]),
    dict(name='R05.12 the update message is published without the forward flag of the caller', rules=('R05.12',), edits=[
        (_U, "                                            'fwd': fwd})", "                                            'fwd': False})")]),
    # R05.13
    dict(name='R05.13 the first instead of the last passed state is kept (seed C05-g5)', rules=('R05.13',), edits=[
        (_TM, "                        passed = passed[-1:]\n", "                        passed = passed[:1]\n")],
         note='cancel of a task that waits for the tmgr input stager: Task.state stays TMGR_STAGING_INPUT'),
    dict(name='R05.13 everything but the last passed state is kept', rules=('R05.13',), edits=[
        (_TM, "                        passed = passed[-1:]\n", "                        passed = passed[:-1]\n")]),
    dict(name='R05.13 truncation in place keeps the head of the list', rules=('R05.13',), edits=[
        (_TM, "                        passed = passed[-1:]\n", "                        del passed[1:]\n")]),
    dict(name='R05.13 the replay loop iterates the first passed state only', rules=('R05.13',), edits=[
        (_TM, _TRUNC + "\n" + _REPLAY,
         "                    if target in [rps.CANCELED, rps.FAILED]:\n"
         "                        # don't replay intermediate states\n"
         "                        n_replay = 1\n"
         "                    else:\n"
         "                        n_replay = len(passed)\n\n"
         "                    for s in passed[:n_replay]:\n")]),
]

SILENT += [
    # the handler of the worker call
    dict(name='R05.7 work_cb: record by update(), renamed element, guard in early-continue form', edits=[
        (_U, "                    if state:\n" + _WCB_REC + _WCB_ADV,
         "                    if not state:\n"
         "                        continue\n\n"
         "                    trace = '\\n'.join(ru.get_exception_trace())\n"
         "                    for failed_thing in things:\n"
         "                        failed_thing.update({'exception'       : repr(e),\n"
         "                                             'exception_detail': trace})\n\n"
         "                    self.advance(things, rps.FAILED, publish=True, push=False)\n\n")]),
    dict(name='R05.7 work_cb: things failed one by one, each after its record', edits=[
        (_U, _WCB_REC + _WCB_ADV,
         "                        for thing in things:\n"
         "                            thing['exception']        = repr(e)\n"
         "                            thing['exception_detail'] = \\\n"
         "                                             '\\n'.join(ru.get_exception_trace())\n"
         "                            self.advance(thing, rps.FAILED, publish=True,\n"
         "                                                            push=False)\n\n")],
         note='one update message per thing instead of one per bulk: not a change of the property'),
    dict(name='R05.7 work_cb: record loop over a copy of the bulk, detail recorded first', edits=[
        (_U, _WCB_REC,
         "                        detail = '\\n'.join(ru.get_exception_trace())\n"
         "                        for thing in list(things):\n"
         "                            thing['exception_detail'] = detail\n"
         "                            thing['exception']        = repr(e)\n\n")]),
    dict(name='R05.7 work_cb: record and hand-on extracted into a helper method', edits=[
        (_U, _WCB_REC + _WCB_ADV, "                        self._fail_things(things, e)\n\n"),
        (_U, "    # --------------------------------------------------------------------------\n    #\n    def advance(self, things, state=None, publish=True, push=False, qname=None,\n                              ts=None, fwd=False, prof=True):",
             "    # --------------------------------------------------------------------------\n    #\n"
             "    def _fail_things(self, things, exc):\n\n"
             "        for thing in things:\n"
             "            thing['exception']        = repr(exc)\n"
             "            thing['exception_detail'] = '\\n'.join(ru.get_exception_trace())\n\n"
             "        self.advance(things, rps.FAILED, publish=True, push=False)\n\n\n"
             "    # --------------------------------------------------------------------------\n    #\n    def advance(self, things, state=None, publish=True, push=False, qname=None,\n                              ts=None, fwd=False, prof=True):")]),
    # R05.10: the three handlers repaired in the way their siblings do it
    dict(name='R05.10 Flux.work handler records the exception (repair)', edits=[
        (_FX, _FX_H,
         "            except Exception as e:\n"
         "                self._log.exception('LM flux submit failed for %s', tid)\n"
         "                task['exception']        = repr(e)\n"
         "                task['exception_detail'] = '\\n'.join(ru.get_exception_trace())\n")]),
    dict(name='R05.10 Master._request_cb handler records the exception on every task (repair)', edits=[
        (_MA, _MA_H,
         "        except Exception as e:\n"
         "            self._log.exception('request cb failed')\n"
         "            for task in tasks:\n"
         "                task['exception']        = repr(e)\n"
         "                task['exception_detail'] = '\\n'.join(ru.get_exception_trace())\n")]),
    dict(name='R05.10 Master._request_cb handler fails task by task after the record (repair)', edits=[
        (_MA, _MA_H + "            self.advance(tasks, rps.FAILED, publish=True, push=False)\n",
         "        except Exception as e:\n"
         "            self._log.exception('request cb failed')\n"
         "            for task in tasks:\n"
         "                task.update({'exception': repr(e)})\n"
         "                self.advance(task, rps.FAILED, publish=True, push=False)\n")]),
    dict(name='R05.10 RoundRobin handler records the exception before collecting the task (repair)', edits=[
        (_RR, "                except Exception:\n" + _RR_H,
         "                except Exception as e:\n" + _RR_H +
         "                    task['exception']        = repr(e)\n"
         "                    task['exception_detail'] = '\\n'.join(ru.get_exception_trace())\n")]),
    # R05.4b sorting loop
    dict(name='R05.4b sorting loop as if / else, lists renamed (seed C05-r3 shape)', edits=[
        (_TO, _TO_SKIP + "\n            # check if we have any staging directives to be enacted in this\n            # component\n"
              "            actionables = list()\n            for sd in task['description'].get('output_staging', []):\n\n"
              "                if sd['action'] == rpc.TRANSFER:\n                    actionables.append(sd)\n\n"
              "            if actionables:\n                staging_tasks.append([task, actionables])\n            else:\n                no_staging_tasks.append(task)\n",
              "                no_staging_tasks.append(task)\n\n"
              "            else:\n"
              "                todo = [sd for sd in task['description'].get('output_staging', [])\n"
              "                           if sd['action'] == rpc.TRANSFER]\n"
              "                if not todo:\n"
              "                    no_staging_tasks.append(task)\n"
              "                else:\n"
              "                    staging_tasks.append((task, todo))\n")]),
    dict(name='R05.4b sorting loop: every branch ends with continue, += instead of append', edits=[
        (_TO, "            if actionables:\n                staging_tasks.append([task, actionables])\n            else:\n                no_staging_tasks.append(task)\n",
              "            if actionables:\n                staging_tasks += [[task, actionables]]\n                continue\n\n            no_staging_tasks += [task]\n")]),
    dict(name='R05.4b sorting loop: outcome test hoisted, directive scan skipped by a flag', edits=[
        (_TO, "            if target_state and target_state != rps.DONE:\n                self._log.debug('skip staging for %s', task['uid'])\n" + _TO_SKIP,
              "            skip = bool(target_state and target_state != rps.DONE)\n"
              "            if skip:\n                self._log.debug('skip staging for %s', task['uid'])\n" + _TO_SKIP)]),
    dict(name='R05.4b bulk hand-on in both arms of a test', edits=[
        (_TO, _TO_BULK,
         "            if len(no_staging_tasks) > 1:\n"
         "                self.advance(no_staging_tasks, publish=True, push=True)\n"
         "            else:\n"
         "                self.advance(no_staging_tasks, push=True, publish=True)\n")]),
    # R05.11
    dict(name='R05.11 missing exit code replaced by 1, mapping with the arms exchanged', edits=[
        (_MA, _MA_RET + "\n" + _MA_MAP,
         "                if ret is None:\n                    ret = 1\n\n"
         "                if int(ret) != 0:\n                    task['target_state'] = rps.FAILED\n"
         "                else:\n                    task['target_state'] = rps.DONE\n")]),
    dict(name='R05.11 missing exit code handled in the mapping itself', edits=[
        (_MA, _MA_RET + "\n" + _MA_MAP,
         "                if ret is not None and int(ret) == 0:\n                    task['target_state'] = rps.DONE\n"
         "                else:\n                    task['target_state'] = rps.FAILED\n")]),
    dict(name='R05.11 target state chosen by a conditional expression', edits=[
        (_MA, _MA_RET + "\n" + _MA_MAP,
         "                code = -1 if ret is None else int(ret)\n"
         "                task['target_state'] = rps.DONE if code == 0 else rps.FAILED\n")]),
    # R05.12
    dict(name='R05.12 AgentComponent.advance passes the flags on positionally', edits=[
        (_U, _AC_SUPER, _AC_SUPER.replace(
            "        super().advance(things=things, state=state, publish=publish, push=push,\n"
            "                        qname=qname, ts=ts, fwd=fwd, prof=prof)\n",
            "        super().advance(things, state, publish, push, qname, ts, fwd, prof)\n"))]),
    dict(name='R05.12 forward default named by a module constant', edits=[
        (_U, _AC_SIG, _AC_SIG.replace("fwd=True", "fwd=_AGENT_FWD")),
        (_U, "class AgentComponent(BaseComponent):\n", "_AGENT_FWD = True\n\n\nclass AgentComponent(BaseComponent):\n")]),
    dict(name='R05.12 forward flag held in a local before the base call', edits=[
        (_U, _AC_SUPER, _AC_SUPER.replace(
            "        super().advance(things=things, state=state, publish=publish, push=push,\n"
            "                        qname=qname, ts=ts, fwd=fwd, prof=prof)\n",
            "        forward = fwd\n"
            "        super().advance(things=things, state=state, publish=publish, push=push,\n"
            "                        qname=qname, ts=ts, prof=prof, fwd=forward)\n"))]),
    # R05.13
    dict(name='R05.13 truncation in place: everything in front of the last state deleted', edits=[
        (_TM, "                        passed = passed[-1:]\n", "                        del passed[:-1]\n")]),
    dict(name='R05.13 truncation by slice assignment', edits=[
        (_TM, "                        passed = passed[-1:]\n", "                        passed[:] = passed[-1:]\n")]),
    dict(name='R05.13 truncation: guard hoisted into a local, negative index spelled with len()', edits=[
        (_TM, _TRUNC,
         "                    only_last = target in [rps.CANCELED, rps.FAILED]\n"
         "                    if only_last:\n"
         "                        passed = passed[len(passed) - 1:]\n")]),
]


# ------------------------------------------------------------------------------
# round 5: R05.5 in early-return form, R05.14 .. R05.17
#
_R5_AGENT = (
    "        if state in [rps.FAILED, rps.CANCELED]:\n"
    "\n"
    "            # final state is handled on client side - hand task over to tmgr\n"
    "            for thing in things:\n"
    "                thing['target_state'] = state\n"
    "                thing['control']      = 'tmgr_pending'\n"
    "                thing['$all']         = True\n"
    "\n"
    "              # FIXME: something like this should be done on `stage_on_error`\n"
    "              # if thing['description'].get('stage_on_error'):\n"
    "              #     thing['state'] = rps.TMGR_STAGING_OUTPUT_PENDING\n"
    "              # else:\n"
    "              #     thing['state'] = state\n"
    "\n"
    "            publish = True\n"
    "            push    = False\n"
    "\n"
    "        super().advance(things=things, state=state, publish=publish, push=push,\n"
    "                        qname=qname, ts=ts, fwd=fwd, prof=prof)\n")
_R5_HANDBACK = ("            thing['target_state'] = state\n"
                "            thing['control']      = 'tmgr_pending'\n"
                "            thing['$all']         = True\n")


def _r5_early(pub='True', psh='False', rec=_R5_HANDBACK, other_push='push'):
    """AgentComponent.advance in early-return form (seed C16-r10)"""
    return (
        "        if state not in [rps.FAILED, rps.CANCELED]:\n"
        "            return super().advance(things=things, state=state, publish=publish,\n"
        "                                   push=%s, qname=qname, ts=ts, fwd=fwd,\n"
        "                                   prof=prof)\n"
        "\n"
        "        # final state is handled on client side - hand task over to tmgr\n"
        "        for thing in things:\n"
        "%s\n"
        "        super().advance(things=things, state=state, publish=%s, push=%s,\n"
        "                        qname=qname, ts=ts, fwd=fwd, prof=prof)\n"
        % (other_push, rec, pub, psh))


_R5_PROXY_OUT = "        self.advance(msg, publish=False, push=True, qname=self._sid)\n"
_R5_TI_ADV = "        self.advance(tasks, state, publish=True, push=push, qname=pid)\n"
_R5_EARLY = ("                        if pid not in self._early:\n"
             "                            self._early[pid] = list()\n"
             "                        self._early[pid].append(task)\n")
_R5_RET = ("        if not to_schedule:\n"
           "            # no resource change, no activity\n"
           "            return None, False\n"
           "\n")
_R5_FWD = ("        # forward raptor tasks to their designated raptor\n"
           "        if to_raptor:\n")
_R5_AI_FIN = ("        # all staging is done -- pass on to the scheduler\n"
              "        self.advance(task, rps.AGENT_SCHEDULING_PENDING, publish=True, push=True)\n")
_R5_TO_FIN = ("        # all staging is done -- at this point the task is final\n"
              "        task['state'] = task['target_state']\n"
              "        self.advance(task, publish=True, push=True)\n")

MUTATIONS += [
    # R05.5, early-return form
    dict(name='R05.5 early-return form: the caller\'s push flag passed on for FAILED/CANCELED', rules=('R05.5',), edits=[
        (_U, _R5_AGENT, _r5_early(psh='push'))]),
    dict(name='R05.5 early-return form: the caller\'s publish flag passed on for FAILED/CANCELED', rules=('R05.5',), edits=[
        (_U, _R5_AGENT, _r5_early(pub='publish'))]),
    dict(name='R05.5 early-return form: $all not set', rules=('R05.5',), edits=[
        (_U, _R5_AGENT, _r5_early(rec=_R5_HANDBACK.replace("            thing['$all']         = True\n", "")))]),
    dict(name='R05.5 early-return form: the other states are always pushed', rules=('R05.5',), edits=[
        (_U, _R5_AGENT, _r5_early(other_push='True'))]),
    # R05.14
    dict(name='R05.14 agent returns executed tasks on the unnamed sub-queue (seed C05-h2)', rules=('R05.14',), edits=[
        (_A0, _R5_PROXY_OUT, "        self.advance(msg, publish=False, push=True)\n")]),
    dict(name='R05.14 agent returns executed tasks under the pilot id', rules=('R05.14',), edits=[
        (_A0, _R5_PROXY_OUT, "        self.advance(msg, publish=False, push=True, qname=self._pid)\n")]),
    dict(name='R05.14 client input stager sends tasks to the unnamed sub-queue', rules=('R05.14',), edits=[
        (_TI, _R5_TI_ADV, "        self.advance(tasks, state, publish=True, push=push)\n")]),
    dict(name='R05.14 a caller of _advance_tasks leaves the pilot id out', rules=('R05.14',), edits=[
        (_TI, "                self._advance_tasks(no_staging_tasks[pid], pid)\n", "                self._advance_tasks(no_staging_tasks[pid])\n")]),
    dict(name='R05.14 agent reads the unnamed sub-queue of the proxy queue', rules=('R05.14',), edits=[
        (_A0, "                            qname=self._pid,\n", "")]),
    dict(name='R05.14 client output stager reads the unnamed sub-queue', rules=('R05.14',), edits=[
        (_TO, "                            qname=self._session.uid,\n", "")]),
    dict(name='R05.14 agent pushes new tasks into a named sub-queue of its input stager', rules=('R05.14',), edits=[
        (_A0, "        self.advance(to_advance, publish=False, push=True)\n", "        self.advance(to_advance, publish=False, push=True, qname=self._pid)\n")]),
    # R05.15
    dict(name='R05.15 early-bound task appended to the default of dict.get (seed C05-h1)', rules=('R05.15',), edits=[
        (_TS, _R5_EARLY, "                        self._early.get(pid, list()).append(task)\n")]),
    dict(name='R05.15 early-bound task appended to `get(pid) or list()`', rules=('R05.15',), edits=[
        (_TS, _R5_EARLY, "                        (self._early.get(pid) or list()).append(task)\n")]),
    dict(name='R05.15 early-bound task appended to a local that holds the default of dict.get', rules=('R05.15',), edits=[
        (_TS, _R5_EARLY, "                        early = self._early.get(pid, [])\n                        early.append(task)\n")]),
    # R05.16
    dict(name='R05.16 nothing-to-schedule return in front of the raptor forwarding (seed C05-h5)', rules=('R05.16',), edits=[
        (_SB, _R5_RET, ""), (_SB, _R5_FWD, _R5_RET + _R5_FWD)]),
    dict(name='R05.16 same early return spelled with len()', rules=('R05.16',), edits=[
        (_SB, _R5_RET, ""), (_SB, _R5_FWD, "        if len(to_schedule) == 0:\n            return None, False\n\n" + _R5_FWD)]),
    dict(name='R05.16 agent output stager returns early when no task needs staging', rules=('R05.16',), edits=[
        (_AO, "        if no_staging_tasks:\n", "        if not staging_tasks:\n            return\n\n        if no_staging_tasks:\n")]),
    # R05.17
    dict(name='R05.17 hand-on to the scheduler inside the loop over the directives (seed C05-h3)', rules=('R05.17',), edits=[
        (_AI, _R5_AI_FIN, "            self.advance(task, rps.AGENT_SCHEDULING_PENDING, publish=True,\n                               push=True)\n")]),
    dict(name='R05.17 same, the task wrapped in a list', rules=('R05.17',), edits=[
        (_AI, _R5_AI_FIN, "            self.advance([task], rps.AGENT_SCHEDULING_PENDING, publish=True,\n                               push=True)\n")]),
    dict(name='R05.17 client output stager finishes the task once per directive', rules=('R05.17',), edits=[
        (_TO, _R5_TO_FIN, "            task['state'] = task['target_state']\n            self.advance(task, publish=True, push=True)\n")]),
]

SILENT += [
    # R05.5
    dict(name='R05.5 AgentComponent.advance in early-return form (seed C16-r10)', edits=[
        (_U, _R5_AGENT, _r5_early())]),
    dict(name='R05.5 early-return form, forced flags left to the defaults of BaseComponent.advance', edits=[
        (_U, _R5_AGENT, _r5_early().replace("publish=True, push=False,\n                        qname", "qname"))]),
    dict(name='R05.5 if/else form: both arms delegate', edits=[
        (_U, _R5_AGENT, _R5_AGENT.replace(
            "            publish = True\n            push    = False\n\n"
            "        super().advance(things=things, state=state, publish=publish, push=push,\n"
            "                        qname=qname, ts=ts, fwd=fwd, prof=prof)\n",
            "            super().advance(things=things, state=state, publish=True,\n"
            "                            push=False, qname=qname, ts=ts, fwd=fwd, prof=prof)\n"
            "        else:\n"
            "            super().advance(things=things, state=state, publish=publish,\n"
            "                            push=push, qname=qname, ts=ts, fwd=fwd, prof=prof)\n"))]),
    # R05.14
    dict(name='R05.14 sub-queue name passed by position', edits=[
        (_A0, _R5_PROXY_OUT, "        self.advance(msg, None, False, True, self._sid)\n")]),
    dict(name='R05.14 sub-queue name held in a local', edits=[
        (_A0, _R5_PROXY_OUT, "        sub = self._sid\n        self.advance(msg, publish=False, push=True, qname=sub)\n")]),
    dict(name='R05.14 sub-queue named through the session object', edits=[
        (_A0, _R5_PROXY_OUT, "        self.advance(msg, publish=False, push=True, qname=self.session.uid)\n")]),
    dict(name='R05.14 return route in a helper whose qname parameter defaults to the session id', edits=[
        (_A0, _R5_PROXY_OUT, "        self._to_client(msg)\n\n    def _to_client(self, tasks, qname=None):\n        if not qname:\n            qname = self._sid\n        self.advance(tasks, publish=False, push=True, qname=qname)\n")]),
    # R05.15
    dict(name='R05.15 early-bound tasks kept with setdefault', edits=[
        (_TS, _R5_EARLY, "                        self._early.setdefault(pid, list()).append(task)\n")]),
    # R05.16
    dict(name='R05.16 early return when both collections are empty', edits=[
        (_SB, _R5_FWD, "        if not to_schedule and not to_raptor:\n            return None, False\n\n" + _R5_FWD)]),
    dict(name='R05.16 emptiness of the raptor collection tested with len()', edits=[
        (_SB, _R5_FWD, "        # forward raptor tasks to their designated raptor\n        if len(to_raptor) > 0:\n")]),
    dict(name='R05.16 raptor forwarding in early-skip form around a helper', edits=[
        (_SB, _R5_FWD, "        self._forward_raptor(to_raptor)\n\n        if to_raptor:\n"),
        (_SB, "    def _schedule_incoming(self):\n", "    def _forward_raptor(self, by_name):\n        if not by_name:\n            return\n        self._log.debug('raptor: %d', len(by_name))\n\n    def _schedule_incoming(self):\n")]),
    # R05.17
    dict(name='R05.17 hand-on in the else clause of the loop over the directives', edits=[
        (_AI, _R5_AI_FIN, "        else:\n            self.advance(task, rps.AGENT_SCHEDULING_PENDING, publish=True, push=True)\n")]),
    dict(name='R05.17 hand-on in a loop over the literal list of the task', edits=[
        (_AI, _R5_AI_FIN, "        for t in [task]:\n            self.advance(t, rps.AGENT_SCHEDULING_PENDING, publish=True, push=True)\n")]),
    dict(name='R05.17 hand-on in a helper called after the loop', edits=[
        (_AI, _R5_AI_FIN, "        self._staged(task)\n\n    def _staged(self, task):\n        self.advance(task, rps.AGENT_SCHEDULING_PENDING, publish=True, push=True)\n")]),
]

MUTATIONS += [
    dict(name='R05.4b _handle_task finishes the task inside the loop over the directives', rules=('R05.4b',), edits=[
        (_TO, _R5_TO_FIN, "            task['state'] = task['target_state']\n            self.advance(task, publish=True, push=True)\n")]),
]

SILENT += [
    dict(name='R05.4b/R05.17 final hand-on of _handle_task in a loop over the literal list of the task', edits=[
        (_TO, _R5_TO_FIN, "        task['state'] = task['target_state']\n        for t in [task]:\n            self.advance(t, publish=True, push=True)\n")]),
    dict(name='R05.4b/R05.17 final hand-on of _handle_task in the else clause of the directive loop', edits=[
        (_TO, _R5_TO_FIN, "        else:\n            task['state'] = task['target_state']\n            self.advance(task, publish=True, push=True)\n")]),
]

# ------------------------------------------------------------------------------
# round 6: R05.18 (work loop survives every work_cb error) and the shape of
# the parking test of R05.8 in seed C12-r11 (entry looked up once, `pilot`
# taken from it by a conditional expression)
#
_R6_LOOP = ("        while not self._term.is_set():\n"
            "            try:\n"
            "                ret = self.work_cb()\n"
            "                if not ret:\n"
            "                    break\n"
            "            except:\n"
            "                self._log.exception('work cb error [ignored]')\n")
_R6_LOOKUP = "                    pilot = self._pilots.get(pid, {}).get('pilot')\n"
_R6_RELEASE_ALL = (
    "                self._update_pilot_states(pilots)\n\n"
    "                for pilot in pilots:\n\n"
    "                    pid = pilot['uid']\n\n"
    "                    # if we have any early_bound tasks waiting for this pilots,\n"
    "                    # advance them now\n"
    "                    early_tasks = self._early.get(pid)\n"
    "                    if early_tasks:\n")
_R6_RELEASE_ACTIVE = _R6_RELEASE_ALL.replace(
    "                for pilot in pilots:\n",
    "                usable = [p for p in pilots\n"
    "                            if self._pilots[p['uid']]['state'] == rps.PMGR_ACTIVE]\n"
    "                for pilot in usable:\n")

MUTATIONS += [
    dict(name='R05.18 error budget of the work loop is never reset (seed C05-i5)', rules=('R05.18',), edits=[
        (_U, _R6_LOOP,
         "        n_err = 0\n"
         "        while not self._term.is_set():\n"
         "            try:\n"
         "                ret = self.work_cb()\n"
         "                if not ret:\n"
         "                    break\n"
         "            except:\n"
         "                n_err += 1\n"
         "                self._log.exception('work cb error %d [ignored]', n_err)\n"
         "                if n_err >= 5:\n"
         "                    self._log.error('too many work cb errors - stop')\n"
         "                    break\n")]),
    dict(name='R05.18 five errors in a row end the worker thread (budget reset on success)', rules=('R05.18',), edits=[
        (_U, _R6_LOOP,
         "        n_err = 0\n"
         "        while not self._term.is_set():\n"
         "            try:\n"
         "                ret = self.work_cb()\n"
         "                if not ret:\n"
         "                    break\n"
         "                n_err = 0\n"
         "            except:\n"
         "                n_err += 1\n"
         "                self._log.exception('work cb error [ignored]')\n"
         "                if n_err < 5:\n"
         "                    continue\n"
         "                return\n")]),
    dict(name='R05.18 assertion errors of work_cb are re-raised by the work loop', rules=('R05.18',), edits=[
        (_U, _R6_LOOP,
         "        while not self._term.is_set():\n"
         "            try:\n"
         "                ret = self.work_cb()\n"
         "                if not ret:\n"
         "                    break\n"
         "            except Exception as e:\n"
         "                self._log.exception('work cb error [ignored]')\n"
         "                if isinstance(e, AssertionError):\n"
         "                    raise\n")]),
    dict(name='R05.18 handler terminates the component after an error (while True form)', rules=('R05.18',), edits=[
        (_U, _R6_LOOP,
         "        while True:\n"
         "            if self._term.is_set():\n"
         "                break\n"
         "            try:\n"
         "                ret = self.work_cb()\n"
         "                if not ret:\n"
         "                    break\n"
         "            except:\n"
         "                self._log.exception('work cb error')\n"
         "                if self._errors_fatal:\n"
         "                    break\n")]),
    dict(name='R05.18 error count in the condition of the work loop', rules=('R05.18',), edits=[
        (_U, _R6_LOOP,
         "        n_err = 0\n"
         "        while not self._term.is_set() and n_err < 5:\n"
         "            try:\n"
         "                ret = self.work_cb()\n"
         "                if not ret:\n"
         "                    break\n"
         "            except:\n"
         "                n_err += 1\n"
         "                self._log.exception('work cb error [ignored]')\n")]),
    dict(name='R05.18 handler sets the termination flag after too many errors', rules=('R05.18',), edits=[
        (_U, _R6_LOOP,
         "        n_err = 0\n"
         "        while not self._term.is_set():\n"
         "            try:\n"
         "                ret = self.work_cb()\n"
         "                if not ret:\n"
         "                    break\n"
         "            except:\n"
         "                n_err += 1\n"
         "                self._log.exception('work cb error [ignored]')\n"
         "                if n_err > 4:\n"
         "                    self._term.set()\n")]),
    dict(name='R05.18 handler delegates to a helper which re-raises assertion errors', rules=('R05.18',), edits=[
        (_U, _R6_LOOP, _R6_LOOP.replace(
            "            except:\n                self._log.exception('work cb error [ignored]')\n",
            "            except Exception as e:\n                self._work_error(e)\n")),
        (_U, "    def _work_loop(self, sync):\n",
         "    def _work_error(self, e):\n"
         "        self._log.exception('work cb error')\n"
         "        if isinstance(e, AssertionError):\n"
         "            raise e\n\n"
         "    def _work_loop(self, sync):\n")]),
    dict(name='R05.8 release only for active pilots, parking test on a conditional expression (shape of C12-r11)', rules=('R05.8',), edits=[
        (_TS, _R6_LOOKUP,
         "                    entry = self._pilots.get(pid)\n"
         "                    pilot = entry['pilot'] if entry else None\n"),
        (_TS, _R6_RELEASE_ALL, _R6_RELEASE_ACTIVE)]),
]

SILENT += [
    # R05.18
    dict(name='R05.18 handler leaves the loop only on the loop\'s own termination test', edits=[
        (_U, _R6_LOOP, _R6_LOOP +
         "                if self._term.is_set():\n"
         "                    break\n")]),
    dict(name='R05.18 errors counted for the log only, explicit continue', edits=[
        (_U, _R6_LOOP,
         "        n_err = 0\n"
         "        while not self._term.is_set():\n"
         "            try:\n"
         "                ret = self.work_cb()\n"
         "                if not ret:\n"
         "                    break\n"
         "            except:\n"
         "                n_err += 1\n"
         "                if n_err % 100 == 1:\n"
         "                    self._log.exception('work cb error %d [ignored]', n_err)\n"
         "                continue\n")]),
    dict(name='R05.18 while True form, call in the test, handler in a helper method', edits=[
        (_U, _R6_LOOP,
         "        while True:\n"
         "            if self._term.is_set():\n"
         "                break\n"
         "            try:\n"
         "                if not self.work_cb():\n"
         "                    break\n"
         "            except:\n"
         "                self._work_error()\n"),
        (_U, "    def _work_loop(self, sync):\n",
         "    def _work_error(self):\n"
         "        self._log.exception('work cb error [ignored]')\n\n"
         "    def _work_loop(self, sync):\n")]),
    dict(name='R05.18 termination flag read into a local in the loop condition and in the handler', edits=[
        (_U, _R6_LOOP,
         "        while True:\n"
         "            done = self._term.is_set()\n"
         "            if done:\n"
         "                break\n"
         "            try:\n"
         "                ret = self.work_cb()\n"
         "                if not ret:\n"
         "                    break\n"
         "            except:\n"
         "                self._log.exception('work cb error [ignored]')\n")]),
    dict(name='R05.18 while True form with the termination test first, repeated in the handler', edits=[
        (_U, _R6_LOOP,
         "        while True:\n"
         "            if self._term.is_set():\n"
         "                break\n"
         "            try:\n"
         "                ret = self.work_cb()\n"
         "                if not ret:\n"
         "                    break\n"
         "            except:\n"
         "                self._log.exception('work cb error [ignored]')\n"
         "                if not self._term.is_set():\n"
         "                    continue\n"
         "                break\n")]),
    dict(name='R05.18 try / except / finally in the work loop', edits=[
        (_U, _R6_LOOP, _R6_LOOP +
         "            finally:\n"
         "                self._log.debug('work cb done')\n")]),
    # R05.8: parking test
    dict(name='R05.8 parking test on a conditional expression over the cached entry (seed C12-r11)', edits=[
        (_TS, _R6_LOOKUP,
         "                    entry = self._pilots.get(pid)\n"
         "                    pilot = entry['pilot'] if entry else None\n")]),
    dict(name='R05.8 parking test on a local set in both arms of an if', edits=[
        (_TS, _R6_LOOKUP,
         "                    known = self._pilots.get(pid)\n"
         "                    if known:\n"
         "                        pilot = known['pilot']\n"
         "                    else:\n"
         "                        pilot = None\n")]),
    dict(name='R05.8 parking test `entry and entry[...]`', edits=[
        (_TS, _R6_LOOKUP,
         "                    entry = self._pilots.get(pid)\n"
         "                    pilot = entry and entry['pilot']\n")]),
    dict(name='R05.8 parking test: local preset to None, overwritten when the entry exists', edits=[
        (_TS, _R6_LOOKUP,
         "                    pilot = None\n"
         "                    if pid in self._pilots:\n"
         "                        pilot = self._pilots[pid]['pilot']\n")]),
]


# round 7: R05.19 (the worker handler of work_cb fails the bulk the worker got)
#
_R7_FILTER = ("                    if self._cancel_list:\n"
              "                        things = [x for x in things\n"
              "                                    if not self.is_canceled(x)]\n")
_R7_CALL   = "                    self._workers[state](things)\n"

MUTATIONS += [
    dict(name='R05.19 cancel filter binds a new local, handler fails the unfiltered bulk (seed C05-j1)', rules=('R05.19',), edits=[
        (_U, _R7_FILTER,
         "                    active = things\n"
         "                    if self._cancel_list:\n"
         "                        active = [x for x in things\n"
         "                                    if not self.is_canceled(x)]\n"),
        (_U, _R7_CALL, "                    self._workers[state](active)\n")]),
    dict(name='R05.19 filtered bulk built inline in the worker call', rules=('R05.19',), edits=[
        (_U, _R7_FILTER, ""),
        (_U, _R7_CALL,
         "                    self._workers[state]([x for x in things\n"
         "                                          if not self.is_canceled(x)])\n")]),
    dict(name='R05.19 handler fails a copy of the bulk saved before the cancel filter', rules=('R05.19',), edits=[
        (_U, _R7_FILTER, "                    received = list(things)\n" + _R7_FILTER),
        (_U, _WCB_REC + _WCB_ADV,
         "                        for thing in received:\n"
         "                            thing['exception']        = repr(e)\n"
         "                            thing['exception_detail'] = \\\n"
         "                                             '\\n'.join(ru.get_exception_trace())\n"
         "\n"
         "                        self.advance(received, rps.FAILED, publish=True,\n"
         "                                                           push=False)\n\n")]),
    dict(name='R05.19 handler fails the unfiltered things one by one', rules=('R05.19',), edits=[
        (_U, _R7_FILTER,
         "                    todo = things\n"
         "                    if self._cancel_list:\n"
         "                        todo = [x for x in things\n"
         "                                  if not self.is_canceled(x)]\n"),
        (_U, _R7_CALL, "                    self._workers[state](todo)\n"),
        (_U, _WCB_REC + _WCB_ADV,
         "                        for thing in things:\n"
         "                            thing['exception']        = repr(e)\n"
         "                            thing['exception_detail'] = \\\n"
         "                                             '\\n'.join(ru.get_exception_trace())\n"
         "                            self.advance(thing, rps.FAILED, publish=True,\n"
         "                                                            push=False)\n\n")]),
]

SILENT += [
    dict(name='R05.19 filtered bulk in a new local used by worker call and handler alike', edits=[
        (_U, _R7_FILTER,
         "                    active = things\n"
         "                    if self._cancel_list:\n"
         "                        active = [x for x in things\n"
         "                                    if not self.is_canceled(x)]\n"),
        (_U, _R7_CALL, "                    self._workers[state](active)\n"),
        (_U, _WCB_REC + _WCB_ADV,
         "                        for thing in active:\n"
         "                            thing['exception']        = repr(e)\n"
         "                            thing['exception_detail'] = \\\n"
         "                                             '\\n'.join(ru.get_exception_trace())\n"
         "\n"
         "                        self.advance(active, rps.FAILED, publish=True,\n"
         "                                                         push=False)\n\n")]),
    dict(name='R05.19 worker called with an alias of the filtered bulk taken after the filter', edits=[
        (_U, _R7_CALL,
         "                    bulk = things\n"
         "                    self._workers[state](bulk)\n")]),
    dict(name='R05.19 cancel filter as an explicit loop, early-continue form', edits=[
        (_U, _R7_FILTER,
         "                    if self._cancel_list:\n"
         "                        kept = list()\n"
         "                        for x in things:\n"
         "                            if self.is_canceled(x):\n"
         "                                continue\n"
         "                            kept.append(x)\n"
         "                        things = kept\n")]),
    dict(name='R05.19 cancel filter extracted into a helper method, worker looked up first', edits=[
        (_U, _R7_FILTER, "                    things = self._drop_canceled(things)\n"),
        (_U, _R7_CALL,
         "                    worker = self._workers[state]\n"
         "                    worker(things)\n"),
        (_U, "    # --------------------------------------------------------------------------\n    #\n    def advance(self, things, state=None, publish=True, push=False, qname=None,\n                              ts=None, fwd=False, prof=True):",
             "    # --------------------------------------------------------------------------\n    #\n"
             "    def _drop_canceled(self, things):\n\n"
             "        if not self._cancel_list:\n"
             "            return things\n\n"
             "        return [x for x in things if not self.is_canceled(x)]\n\n\n"
             "    # --------------------------------------------------------------------------\n    #\n    def advance(self, things, state=None, publish=True, push=False, qname=None,\n                              ts=None, fwd=False, prof=True):")]),
    dict(name='R05.19 handler fails the things one by one, renamed element, over a copy', edits=[
        (_U, _WCB_REC + _WCB_ADV,
         "                        for failed_thing in list(things):\n"
         "                            failed_thing['exception']        = repr(e)\n"
         "                            failed_thing['exception_detail'] = \\\n"
         "                                             '\\n'.join(ru.get_exception_trace())\n"
         "                            self.advance(failed_thing, rps.FAILED, publish=True,\n"
         "                                                                   push=False)\n\n")]),
]
