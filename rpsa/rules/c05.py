"""C05  Every submitted task ends in one final state that tells the truth
(DESIGN 5 / C05)"""

import ast

from ..model import (walk, dotted, call_name, kwarg, unparse, short, UNKNOWN,
                     root_name, AnalysisError, calls_in, stores_in_target)
from ..cfg import cfg_of
from ..flow import Deps, guards, must_pass, loop_slice, Exploration
from .. import idioms as I

COMP   = ('utils/component.py', 'BaseComponent')
ACOMP  = ('utils/component.py', 'AgentComponent')
CCOMP  = ('utils/component.py', 'ClientComponent')
POPEN  = ('agent/executing/popen.py', 'Popen')
MASTER = ('raptor/master.py', 'Master')
TOUT   = ('tmgr/staging_output/default.py', 'Default')
STAGERS = [('tmgr/staging_input/default.py', 'Default'),
           ('agent/staging_input/default.py', 'Default'),
           ('agent/staging_output/default.py', 'Default'),
           ('tmgr/staging_output/default.py', 'Default')]


def all_methods(prog):
    for m in prog.modules.values():
        for c in m.classes.values():
            for f in c.methods.values():
                yield c, f


def _states(prog, f, e):
    v = prog.fold(f.module, e, f.cls)
    if v is UNKNOWN:
        return None
    return list(v) if isinstance(v, (list, tuple)) else [v]


# ------------------------------------------------------------------------------
# R05.1  route table
#
def route_table(prog):
    """rows: {'in': [(cls, state, queue, cb name, func, call)],
              'out': [(cls, state, queue, func, call)]}"""
    rows = {'in': [], 'out': []}
    for c, f in all_methods(prog):
        if f.module.rel == 'utils/component.py':
            continue
        for call in calls_in(f.node, nested=True):
            cn = call_name(call)
            if cn == 'self.register_input':
                st = _states(prog, f, kwarg(call, 'states', 0))
                q = prog.fold(f.module, kwarg(call, 'queue', 1), f.cls)
                cb = kwarg(call, 'cb', 2)
                if st is None or q is UNKNOWN:
                    raise AnalysisError('UNRECOGNISED-IDIOM %s: cannot fold '
                                        '`%s`' % (f.where, short(call, 60)))
                for s in st:
                    rows['in'].append((c, s, q, unparse(cb) if cb is not None
                                       else None, f, call))
            elif cn == 'self.register_output':
                st = _states(prog, f, kwarg(call, 'states', 0))
                q = prog.fold(f.module, kwarg(call, 'qname', 1), f.cls)
                if st is None or q is UNKNOWN:
                    raise AnalysisError('UNRECOGNISED-IDIOM %s: cannot fold '
                                        '`%s`' % (f.where, short(call, 60)))
                for s in st:
                    rows['out'].append((c, s, q, f, call))
    return rows


def class_rows(prog, rows, cls, kind):
    """rows registered by cls or one of its bases (the registration runs on
    the instance) or - for base classes - by any subclass"""
    mro = prog.mro(cls)
    out = [r for r in rows[kind] if r[0] in mro]
    return out


def pushed_state(prog, f, call, rows, cls):
    """state the things are in when pushed by this hand-on: the constant
    argument, a constant assigned to thing['state'] before, the input row's
    state for a relay callback; 'FINAL' when it is the thing's target_state;
    None if unknown"""
    st = I.handon_state(prog, f, call)
    if st is not None and st is not UNKNOWN:
        return st
    e = I.handon_state_expr(call)
    if e is not None and not (isinstance(e, ast.Constant) and e.value is None):
        # a non-constant state expression (a parameter of a wrapper)
        return None
    vals = set()
    for n in walk(f.node):
        if isinstance(n, ast.Assign):
            for t in n.targets:
                if isinstance(t, ast.Subscript) and \
                        isinstance(t.slice, ast.Constant) and \
                        t.slice.value == 'state':
                    v = prog.fold(f.module, n.value, f.cls)
                    if v is not UNKNOWN:
                        vals.add(v)
                    elif "['target_state']" in unparse(n.value):
                        vals.add('FINAL')
                    else:
                        vals.add(None)
    if vals:
        return vals.pop() if len(vals) == 1 else (
            'FINAL' if vals <= {'FINAL'} else None)
    # relay: registered as callback of an input row
    for r in rows['in']:
        if r[0] in prog.mro(cls) or cls in prog.mro(r[0]):
            if r[3] == 'self.' + f.name:
                return r[1]
    return None


def r05_1(prog, rep, rid='R05.1'):
    rep.rule(rid, 'every pushing hand-on to a non-final state has an output '
             'row in its component and a consumer registered on the same '
             '(state, queue)', minimum=14)
    rows = route_table(prog)
    final = set(prog.const('states.py', 'FINAL'))
    rep.stat('input_rows', len(rows['in']))
    rep.stat('output_rows', len(rows['out']))
    if len(rows['in']) < 10 or len(rows['out']) < 12:
        raise AnalysisError('R05.1: route table too small (%d in / %d out)'
                            % (len(rows['in']), len(rows['out'])))
    n_sites = n_push = 0
    comp = prog.cls(*COMP)
    for c, f in all_methods(prog):
        if comp not in prog.mro(c) or f.module.rel == 'utils/component.py':
            continue
        for call in calls_in(f.node, nested=True):
            if not I.is_handon(call):
                continue
            n_sites += 1
            push = I.flag(call, 'push', default=False)
            if push is not True:
                continue
            st = pushed_state(prog, f, call, rows, c)
            if st == 'FINAL' or st in final:
                continue
            if st is None:
                rep.info(rid, f, 'state of the pushing hand-on `%s` is not a '
                         'constant' % short(call, 50), f.loc(call))
                continue
            n_push += 1
            rep.saw(f)
            # concrete classes this code runs in: c and its subclasses
            concrete = [k for k in prog.subclasses(c)] or [c]
            missing = []
            for k in concrete:
                outs = [r for r in class_rows(prog, rows, k, 'out')
                        if r[1] == st]
                if not outs:
                    # only a problem for classes that can be instantiated as
                    # components: they register at least one route themselves
                    if class_rows(prog, rows, k, 'out') or \
                            class_rows(prog, rows, k, 'in'):
                        missing.append(k.name)
                    continue
                for r in outs:
                    cons = [i for i in rows['in'] if i[1] == st and
                            i[2] == r[2]]
                    if not cons:
                        missing.append('%s: no consumer of (%s, %s)'
                                       % (k.name, st, r[2]))
            rep.check(not missing, rid, f, '`%s` -> %s is routed (output row '
                      'and consumer exist)' % (short(call, 40), st),
                      construct=call, message='%s pushes tasks in state %s '
                      'but %s: BaseComponent.advance logs "lost" and the '
                      'tasks silently vanish' % (
                          f.qual, st, '; '.join(
                              m if ':' in m else '%s registers no output for '
                              'that state' % m for m in missing)),
                      loc=f.loc(call),
                      history='every task that reaches this hand-on is '
                      'dropped: it never reaches a final state')
    rep.stat('handon_sites', n_sites)
    rep.stat('pushing_handons', n_push)
    if n_sites < 60:
        raise AnalysisError('R05.1: only %d hand-on sites found' % n_sites)
    # every consumer has a worker callback
    for r in rows['in']:
        cls, st, q, cb, f, call = r
        okcb = cb is not None and cb.startswith('self.') and \
            prog.find_method(cls, cb[5:]) is not None
        rep.check(okcb, rid, f, 'input row (%s, %s) of %s has the worker %s'
                  % (st, q, cls.name, cb), construct=call,
                  message='%s registers the input (%s, %s) without an '
                  'existing worker method (%s)' % (cls.name, st, q, cb),
                  loc=f.loc(call))
    # the pipeline is closed: the states of the input rows are pushed by
    # somebody
    pushed = set()
    for c, f in all_methods(prog):
        for call in calls_in(f.node, nested=True):
            if I.is_handon(call):
                st = pushed_state(prog, f, call, rows, c)
                if st:
                    pushed.add(st)
            if call_name(call) in ('self._advance_tasks',):
                pass
    return rows


# ------------------------------------------------------------------------------
# R05.2  outcome tables
#
def r05_2(prog, rep, rid='R05.2'):
    rep.rule(rid, 'exit code 0 <=> target state DONE, anything else FAILED '
             'with exit code and exception recorded; the client takes the '
             'final state from target_state, FAILED from its own handler',
             minimum=6)
    done = prog.const('states.py', 'DONE')
    failed = prog.const('states.py', 'FAILED')
    po = prog.cls(*POPEN)
    f = prog.find_method(po, '_check_running')
    rep.saw(f)
    g = cfg_of(f)
    smap = I.stmt_node_map(g)
    sets = []
    for n in g.stmt_nodes():
        if n.kind == 'stmt' and isinstance(n.ast, ast.Assign) and any(
                isinstance(t, ast.Subscript) and
                isinstance(t.slice, ast.Constant) and
                t.slice.value == 'target_state' for t in n.ast.targets):
            sets.append((n, prog.fold(f.module, n.ast.value)))
    if len(sets) < 2:
        raise AnalysisError('UNRECOGNISED-IDIOM %s: target_state assignments'
                            % f.where)
    # the exit code variable: result of .poll()
    ec = None
    for n in walk(f.node):
        if isinstance(n, ast.Assign) and isinstance(n.value, ast.Call) and \
                isinstance(n.value.func, ast.Attribute) and \
                n.value.func.attr in ('poll', 'wait') and \
                isinstance(n.targets[0], ast.Name):
            ec = n.targets[0].id
    if ec is None:
        raise AnalysisError('UNRECOGNISED-IDIOM %s: exit code variable'
                            % f.where)

    def zero_guard(nid):
        """'zero' / 'nonzero' / None: what the guards say about ec == 0"""
        for tid, lab in guards(g, nid):
            a = g.nodes[tid].ast
            if isinstance(a, ast.Compare) and len(a.ops) == 1 and \
                    ec in {x.id for x in walk(a) if isinstance(x, ast.Name)} \
                    and isinstance(a.comparators[0], ast.Constant) and \
                    a.comparators[0].value == 0:
                eq = isinstance(a.ops[0], ast.Eq)
                ne = isinstance(a.ops[0], ast.NotEq)
                if eq or ne:
                    return 'zero' if (lab == 'T') == eq else 'nonzero'
            if isinstance(a, ast.Name) and a.id == ec:
                return 'nonzero' if lab == 'T' else 'zero'
        return None
    for n, v in sets:
        zg = zero_guard(n.id)
        if v == done:
            rep.check(zg == 'zero', rid, f, 'target_state = DONE only under '
                      'exit code 0', construct=n.ast, message='Popen.'
                      '_check_running records DONE %s' % (
                          'for a non-zero exit code' if zg == 'nonzero' else
                          'without testing the exit code'), loc=f.loc(n.ast),
                      history='a task whose process exits with code 1 ends '
                      'as DONE')
        elif v == failed:
            rep.check(zg == 'nonzero', rid, f, 'target_state = FAILED only '
                      'under a non-zero exit code', construct=n.ast,
                      message='Popen._check_running records FAILED %s' % (
                          'for exit code 0' if zg == 'zero' else 'without '
                          'testing the exit code'), loc=f.loc(n.ast),
                      history='a task whose process exits with code 0 ends '
                      'as FAILED')
            # exit code and exception recorded on the failing branch
            rec = set()
            for m in g.stmt_nodes():
                if m.kind == 'stmt' and isinstance(m.ast, ast.Assign) and \
                        zero_guard(m.id) == 'nonzero':
                    for t in m.ast.targets:
                        if isinstance(t, ast.Subscript) and \
                                isinstance(t.slice, ast.Constant):
                            rec.add(t.slice.value)
            # exit_code may be recorded before the branch for both outcomes
            for m in g.stmt_nodes():
                if m.kind == 'stmt' and isinstance(m.ast, ast.Assign) and \
                        zero_guard(m.id) is None and \
                        must_pass(g, g.entry.id, n.id, [m.id]):
                    for t in m.ast.targets:
                        if isinstance(t, ast.Subscript) and \
                                isinstance(t.slice, ast.Constant):
                            rec.add(t.slice.value)
            rep.check({'exit_code', 'exception'} <= rec, rid, f, 'the failing '
                      'branch records exit_code and exception',
                      construct='check_running:failed-record',
                      message='Popen._check_running marks a task FAILED '
                      'without recording %s on it' % sorted(
                          {'exit_code', 'exception'} - rec), loc=f.loc(n.ast),
                      history='a task fails with exit code 3: the '
                      'application sees FAILED with exit_code None')
        else:
            rep.bad(rid, f, n.ast, 'Popen._check_running records the target '
                    'state %r for an exited process (only DONE / FAILED are '
                    'truthful here)' % (v,), f.loc(n.ast))
    # the DONE branch records the exit code too
    rec0 = set()
    for m in g.stmt_nodes():
        if m.kind == 'stmt' and isinstance(m.ast, ast.Assign) and \
                zero_guard(m.id) in ('zero', None):
            for t in m.ast.targets:
                if isinstance(t, ast.Subscript) and \
                        isinstance(t.slice, ast.Constant):
                    rec0.add(t.slice.value)
    rep.check('exit_code' in rec0, rid, f, 'the DONE branch records the exit '
              'code', construct='check_running:done-record',
              message='Popen._check_running does not record exit_code for a '
              'successful task', loc=f.loc())

    # client side: final state from target_state, FAILED from the handler
    to = prog.cls(*TOUT)
    for mname in ('work', '_handle_task'):
        f = prog.find_method(to, mname)
        rep.saw(f)
        for n in walk(f.node):
            if isinstance(n, ast.Assign):
                for t in n.targets:
                    if isinstance(t, ast.Subscript) and \
                            isinstance(t.slice, ast.Constant) and \
                            t.slice.value == 'state':
                        okv = isinstance(n.value, ast.Subscript) and \
                            isinstance(n.value.slice, ast.Constant) and \
                            n.value.slice.value == 'target_state' and \
                            root_name(n.value) == root_name(t)
                        rep.check(okv, rid, f, "the final state is the task's "
                                  "own target_state", construct=n,
                                  message="tmgr staging output sets the "
                                  "final state from `%s`, not from the task's "
                                  "own target_state" % short(n.value, 40),
                                  loc=f.loc(n),
                                  history='a FAILED task is reported DONE (or '
                                  'gets the state of another task)')
    f = prog.find_method(to, 'work')
    g = cfg_of(f)
    smap = I.stmt_node_map(g)
    for c in calls_in(f.node):
        if not I.is_handon(c):
            continue
        n = smap[id(c)]
        in_handler = any(g.nodes[x].kind == 'handler' for x in
                         _handler_ancestors(g, n.id))
        st = I.handon_state(prog, f, c)
        if in_handler:
            rep.check(st == failed, rid, f, 'a staging error ends the task as '
                      'FAILED', construct=c, message='the error handler of '
                      'tmgr staging output hands the task on in state %r'
                      % (st,), loc=f.loc(c),
                      history='an output file cannot be transferred: the '
                      'task ends as DONE')


def _handler_ancestors(g, nid):
    """handler nodes from which nid is reachable without leaving the handler
    body lexically: approximated by predecessors reachable backwards until a
    handler node"""
    out = set()
    seen = set()
    todo = [nid]
    while todo:
        n = todo.pop()
        for e in g.pred[n]:
            if e.src in seen:
                continue
            seen.add(e.src)
            if g.nodes[e.src].kind == 'handler':
                out.add(e.src)
                continue
            if e.label == 'exc':
                continue
            todo.append(e.src)
    # only handlers that dominate nid count
    return {h for h in out if must_pass(g, g.entry.id, nid, [h])}


# ------------------------------------------------------------------------------
# R05.3  component survival
#
def r05_3(prog, rep, rid='R05.3'):
    rep.rule(rid, 'a worker that raises fails its things (exception '
             'recorded, FAILED hand-on) and the component keeps running',
             minimum=3)
    comp = prog.cls(*COMP)
    f = prog.find_method(comp, 'work_cb')
    rep.saw(f)
    g = cfg_of(f)
    smap = I.stmt_node_map(g)
    workers = [n for n in g.stmt_nodes() if n.kind == 'stmt' and any(
        isinstance(c.func, ast.Subscript) and
        'self._workers' in unparse(c.func) for c in calls_in(n.ast))]
    if not workers:
        raise AnalysisError('UNRECOGNISED-IDIOM %s: worker call' % f.where)
    failed = prog.const('states.py', 'FAILED')
    for w in workers:
        hs = []
        for e in g.succ[w.id]:
            if e.label == 'exc':
                t = g.nodes[e.dst]
                hs = [g.nodes[x.dst] for x in g.succ[t.id]] \
                    if t.kind == 'dispatch' else [t]
        hd = [h for h in hs if h.kind == 'handler']
        onward = [h for h in hs if h.kind != 'handler']
        catch_all = any(h.ast.type is None or unparse(h.ast.type).split('.')[-1]
                        in ('Exception', 'BaseException') for h in hd)
        rep.check(bool(hd) and catch_all and not onward, rid, f,
                  'the worker call is inside a try whose handler catches '
                  'Exception', construct='work_cb:try',
                  message='BaseComponent.work_cb calls the worker without a '
                  'catch-all handler: an exception in one worker ends the '
                  'component loop for all tasks', loc=f.loc(w.ast),
                  history='one task with a malformed description raises in '
                  'the stager: every later task hangs in *_PENDING')
        for h in hd:
            region = g.reachable(h.id, labels={'next', 'T', 'F', 'iter',
                                               'done'})
            hands = [c for x in region for c in I.stmt_calls(g.nodes[x])
                     if I.is_handon(c)]
            rec = any(isinstance(g.nodes[x].ast, ast.Assign) and any(
                isinstance(t, ast.Subscript) and
                isinstance(t.slice, ast.Constant) and
                t.slice.value == 'exception'
                for t in g.nodes[x].ast.targets) for x in region
                if g.nodes[x].kind == 'stmt')
            reraise = any(g.nodes[x].kind == 'stmt' and
                          isinstance(g.nodes[x].ast, ast.Raise)
                          for x in region)
            okh = any(I.handon_state(prog, f, c) == failed for c in hands)
            rep.check(okh and rec and not reraise, rid, f, 'the handler '
                      'records the exception on the things and hands them on '
                      'as FAILED without re-raising', construct='work_cb:'
                      'handler', message='the error handler of work_cb %s'
                      % ('re-raises' if reraise else 'does not hand the '
                         'things on as FAILED' if not okh else 'does not '
                         'record the exception on the things'),
                      loc=f.loc(h.ast),
                      history='a worker raises: its tasks stay non-final '
                      'forever (or end FAILED without any explanation)')
    f = prog.find_method(comp, '_work_loop')
    rep.saw(f)
    g = cfg_of(f)
    calls = [n for n in g.stmt_nodes() if n.kind == 'stmt' and any(
        call_name(c) == 'self.work_cb' for c in calls_in(n.ast))]
    if not calls:
        raise AnalysisError('UNRECOGNISED-IDIOM %s: work_cb call' % f.where)
    for w in calls:
        okl = False
        for e in g.succ[w.id]:
            if e.label == 'exc':
                t = g.nodes[e.dst]
                hs = [g.nodes[x.dst] for x in g.succ[t.id]] \
                    if t.kind == 'dispatch' else [t]
                if hs and all(h.kind == 'handler' for h in hs):
                    # the handler continues the loop
                    okl = all(any(ed.back for x in g.reachable(
                        h.id, labels={'next', 'T', 'F'}) for ed in g.succ[x])
                        for h in hs)
        rep.check(okl and bool(w.loops), rid, f, '_work_loop swallows '
                  'exceptions of work_cb and continues the loop',
                  construct='work_loop:swallow', message='BaseComponent.'
                  '_work_loop does not catch exceptions of work_cb inside '
                  'its loop: the component thread ends on the first error',
                  loc=f.loc(w.ast),
                  history='an assertion in work_cb (unknown state) kills the '
                  'component; every later task hangs')


# ------------------------------------------------------------------------------
# R05.4  per-task isolation in the stagers
#
def per_task_handlers(prog, f):
    """[(loop head, handler call node, handler nodes)] for loops over tasks
    in which a per-task worker is called inside a try"""
    g = cfg_of(f)
    smap = I.stmt_node_map(g)
    out = []
    for n in g.stmt_nodes():
        if n.kind != 'stmt' or not n.loops:
            continue
        for c in calls_in(n.ast):
            cn = call_name(c)
            if cn.startswith('self._handle_task'):
                hs = []
                for e in g.succ[n.id]:
                    if e.label == 'exc':
                        t = g.nodes[e.dst]
                        hs = [g.nodes[x.dst] for x in g.succ[t.id]] \
                            if t.kind == 'dispatch' else [t]
                out.append((g, n, c, hs))
    return out


def r05_4(prog, rep, rid='R05.4'):
    rep.rule(rid, 'in every stager the per-task handler call is inside a try '
             'in the loop body whose handler records the exception on that '
             'task and hands that task on as FAILED', minimum=8)
    failed = prog.const('states.py', 'FAILED')
    n = 0
    for anchor in STAGERS:
        K = prog.cls(*anchor)
        for mname in ('work', '_work'):
            f = K.methods.get(mname)
            if f is None:
                continue
            rep.saw(f)
            for g, node, call, hs in per_task_handlers(prog, f):
                n += 1
                label = '%s::%s.%s' % (anchor[0].rsplit('/', 1)[0], K.name,
                                       mname)
                hd = [h for h in hs if h.kind == 'handler' and
                      set(node.loops) <= set(h.loops)]
                onward = [h for h in hs if h.kind != 'handler']
                rep.check(bool(hd) and not onward, rid, f, '%s: `%s` is '
                          'isolated per task' % (label, short(call, 40)),
                          construct='%s:try' % label, message='%s calls `%s` '
                          'without a catch-all handler inside the per-task '
                          'loop: a staging error of one task fails the whole '
                          'bulk' % (label, short(call, 50)), loc=f.loc(call),
                          history='one task names a missing input file: all '
                          'tasks of the bulk end FAILED')
                if not hd:
                    continue
                # the task of this iteration
                tv = None
                for x in call.args:
                    if isinstance(x, ast.Name):
                        tv = x.id
                        break
                region = set()
                for h in hd:
                    region |= g.reachable(h.id, labels={'next', 'T', 'F',
                                                        'iter', 'done'},
                                          no_back=True) & \
                        g.loop_body[node.loops[-1]]
                rec = any(g.nodes[x].kind == 'stmt' and
                          isinstance(g.nodes[x].ast, ast.Assign) and any(
                              isinstance(t, ast.Subscript) and
                              isinstance(t.slice, ast.Constant) and
                              t.slice.value == 'exception' and
                              root_name(t) == tv
                              for t in g.nodes[x].ast.targets)
                          for x in region)
                # FAILED hand-on of that task: directly, or collected into a
                # list which is handed on as FAILED after the loop
                okf = False
                for x in region:
                    for c in I.stmt_calls(g.nodes[x]):
                        if (I.is_handon(c) or call_name(c) ==
                                'self._advance_tasks') and \
                                _names(c.args[0] if c.args else None) & {tv}:
                            st = I.handon_state(prog, f, c)
                            if st == failed:
                                okf = True
                        if isinstance(c.func, ast.Attribute) and \
                                c.func.attr == 'append' and c.args and \
                                _names(c.args[0]) & {tv} and \
                                isinstance(c.func.value, ast.Name):
                            lst = c.func.value.id
                            for c2 in calls_in(f.node):
                                if (I.is_handon(c2) or call_name(c2) ==
                                        'self._advance_tasks') and c2.args \
                                        and _names(c2.args[0]) & {lst} and \
                                        I.handon_state(prog, f, c2) == failed:
                                    okf = True
                rep.check(okf, rid, f, '%s: the handler hands that task on as '
                          'FAILED' % label, construct='%s:failed' % label,
                          message='%s: the per-task error handler does not '
                          'hand the failing task on as FAILED' % label,
                          loc=f.loc(call),
                          history='a staging error leaves the task in the '
                          'staging state forever')
                rep.check(rec, rid, f, '%s: the handler records the exception '
                          'on that task' % label, construct='%s:record'
                          % label, message='%s: the per-task error handler '
                          'fails the task without recording the exception on '
                          'it: the application sees FAILED without any '
                          'explanation (the sibling stagers record '
                          "task['exception'] / task['exception_detail'])"
                          % label, loc=f.loc(call),
                          history='an output file cannot be transferred: '
                          'task.exception is None')
    if n < 4:
        raise AnalysisError('R05.4: only %d per-task handler calls found in '
                            'the stagers' % n)


def _names(e):
    if e is None:
        return set()
    return {x.id for x in walk(e) if isinstance(x, ast.Name)}


# ------------------------------------------------------------------------------
# R05.4b  one hand-on per task in the client output stager
#
def r05_4b(prog, rep, rid='R05.4b'):
    rep.rule(rid, 'tmgr staging output hands every task on exactly once '
             '(handler callee included)', minimum=1)
    to = prog.cls(*TOUT)
    f = prog.find_method(to, 'work')
    fh = prog.find_method(to, '_handle_task')
    g = cfg_of(f)
    # summary of _handle_task: hand-ons of its task parameter on the normal
    # exit
    gh = cfg_of(fh)
    hv = [p for p in fh.params if p != 'self'][0]

    def count(gx, fx, var, start, stop=None, stop_edge=None, callee=None):
        def transfer(node, edge, st):
            if edge.label == 'exc':
                return st
            if node.kind == 'stmt':
                for c in calls_in(node.ast):
                    if I.is_handon(c) and _names(I.handon_thing(c)) & {var}:
                        st = min(2, st + 1)
                    elif callee and call_name(c) == callee[0] and c.args and \
                            _names(c.args[0]) & {var}:
                        st = min(2, st + callee[1])
            return st
        return Exploration(gx, start, 0, transfer, stop=stop,
                           stop_edge=stop_edge)
    exh = count(gh, fh, hv, gh.entry.id)
    inner = {t.state for t in exh.terminals if t.node == gh.exit.id}
    if len(inner) != 1:
        raise AnalysisError('UNRECOGNISED-IDIOM %s: _handle_task hands on %s '
                            'times depending on the path' % (fh.where, inner))
    k = inner.pop()
    loops = [n for n in g.nodes if n.kind == 'for' and any(
        call_name(c) == 'self._handle_task' for c in calls_in(n.ast))]
    if len(loops) != 1:
        raise AnalysisError('UNRECOGNISED-IDIOM %s: per-task loop' % f.where)
    H = loops[0]
    tv = stores_in_target(H.ast.target)[0]
    start, stop, stop_edge = loop_slice(g, H.id)
    ex = count(g, f, tv, start, stop, stop_edge, ('self._handle_task', k))
    bad = None
    for t in ex.terminals:
        if t.node == g.raise_.id:
            continue
        if t.state != 1:
            bad = t
    if bad is not None:
        rep.bad(rid, f, 'tmgr-output:hand-ons=%d' % bad.state,
                'tmgr staging output hands a task with output directives on '
                '%d time(s) on some path (_handle_task hands it on %d time(s) '
                'itself)' % (bad.state, k), f.loc(H.ast),
                history='a DONE task with a TRANSFER output directive is '
                'published as final twice', path=ex.literals(bad)[-5:])
    else:
        rep.ok(rid, f, 'each task with output directives is handed on exactly '
               'once (by _handle_task or by work, not both)', f.loc(H.ast))


# ------------------------------------------------------------------------------
# R05.5  FAILED / CANCELED are handed back to the client
#
def r05_5(prog, rep, rid='R05.5'):
    rep.rule(rid, 'advance() to FAILED/CANCELED records target_state and is '
             'always published, never pushed; the agent side hands the full '
             'task back to the task manager', minimum=4)
    failed = prog.const('states.py', 'FAILED')
    canceled = prog.const('states.py', 'CANCELED')
    for anchor, agent in ((ACOMP, True), (CCOMP, False)):
        K = prog.cls(*anchor)
        f = K.methods.get('advance')
        if f is None:
            raise AnalysisError('%s.advance missing' % K.name)
        rep.saw(f)
        g = cfg_of(f)
        smap = I.stmt_node_map(g)
        tests = []
        for n in g.nodes:
            if n.kind == 'test' and isinstance(n.ast, ast.Compare) and \
                    len(n.ast.ops) == 1 and isinstance(n.ast.ops[0], ast.In) \
                    and unparse(n.ast.left) == 'state':
                v = prog.fold(f.module, n.ast.comparators[0], K)
                if isinstance(v, (list, tuple, set, frozenset)) and \
                        set(v) == {failed, canceled}:
                    tests.append(n)
        rep.check(len(tests) == 1, rid, f, '%s.advance special-cases exactly '
                  'FAILED and CANCELED' % K.name, construct='%s:test' % K.name,
                  message='%s.advance does not test `state in [FAILED, '
                  'CANCELED]`' % K.name, loc=f.loc())
        if len(tests) != 1:
            continue
        T = tests[0]
        want = {'publish': True, 'push': False}
        got = {}
        keys = set()
        for n in g.stmt_nodes():
            if n.kind != 'stmt' or (T.id, 'T') not in guards(g, n.id):
                continue
            if isinstance(n.ast, ast.Assign):
                for t in n.ast.targets:
                    if isinstance(t, ast.Name) and t.id in want and \
                            isinstance(n.ast.value, ast.Constant):
                        got[t.id] = n.ast.value.value
                    if isinstance(t, ast.Subscript) and \
                            isinstance(t.slice, ast.Constant):
                        keys.add((t.slice.value, unparse(n.ast.value)))
        rep.check(got == want, rid, f, '%s.advance forces publish=True, '
                  'push=False for FAILED/CANCELED' % K.name,
                  construct='%s:flags' % K.name, message='%s.advance does not '
                  'force publish=True and push=False for FAILED/CANCELED '
                  '(found %s): a failed task is pushed into a queue nobody '
                  'reads, or its final state is never published'
                  % (K.name, got), loc=f.loc(),
                  history='a task fails in the scheduler: the client never '
                  'learns about it')
        rep.check(('target_state', 'state') in keys, rid, f, '%s.advance '
                  'records target_state = state' % K.name,
                  construct='%s:target_state' % K.name, message='%s.advance '
                  'does not record the final state as target_state on the '
                  'things' % K.name, loc=f.loc())
        if agent:
            okk = ('control', "'tmgr_pending'") in keys and \
                ('$all', 'True') in keys
            rep.check(okk, rid, f, 'the agent hands the full task back to the '
                      "tmgr (control = 'tmgr_pending', $all)",
                      construct='agent:handback', message='AgentComponent.'
                      'advance does not mark a FAILED/CANCELED task for the '
                      "task manager (control='tmgr_pending', $all=True): only "
                      'the bare state is published and the exception / exit '
                      'code never reach the client', loc=f.loc())
        # the super call passes the (possibly forced) flags on
        sup = [c for c in calls_in(f.node) if 'super()' in call_name(c) and
               call_name(c).endswith('.advance')]
        oks = len(sup) == 1 and all(
            kwarg(sup[0], k) is not None and unparse(kwarg(sup[0], k)) == k
            for k in ('publish', 'push', 'state', 'things'))
        rep.check(oks, rid, f, '%s.advance delegates with the adjusted flags'
                  % K.name, construct='%s:super' % K.name, message='%s.'
                  'advance does not pass things/state/publish/push on to '
                  'BaseComponent.advance' % K.name, loc=f.loc())


# ------------------------------------------------------------------------------
# R05.6  a kill time is armed only for a timeout that was requested
#
EBASE = ('agent/executing/base.py', 'AgentExecutingComponent')


def r05_6(prog, rep, rid='R05.6'):
    rep.rule(rid, 'an entry of the timeout watch list carries a non-zero kill '
             'time only if the corresponding timeout of the description is '
             'non-zero (0 is the "do not kill" sentinel of _to_watcher)',
             minimum=3)
    from ..flow import reaching_defs
    K = prog.cls(*EBASE)
    # the consumer: cancel_task only under a truthy kill time
    fw = prog.find_method(K, '_to_watcher')
    rep.saw(fw)
    g = cfg_of(fw)
    smap = I.stmt_node_map(g)
    kills = [c for c in calls_in(fw.node) if call_name(c) == 'self.cancel_task']
    if not kills:
        raise AnalysisError('UNRECOGNISED-IDIOM %s: no cancel_task call'
                            % fw.where)
    for c in kills:
        n = smap[id(c)]
        gl = [(g.nodes[t].ast, lab) for t, lab in guards(
            g, n.id, start=loop_slice(g, n.loops[-1])[0] if n.loops else None)]
        truthy = [a for a, lab in gl if isinstance(a, ast.Name) and lab == 'T']
        expired = [a for a, lab in gl if isinstance(a, ast.Compare) and
                   len(a.ops) == 1 and isinstance(a.ops[0], (ast.Gt, ast.GtE,
                                                             ast.Lt, ast.LtE))]
        rep.check(bool(truthy) and bool(expired), rid, fw, '_to_watcher kills '
                  'only entries whose kill time is non-zero and has passed',
                  construct='to_watcher:guards', message='_to_watcher calls '
                  'cancel_task without testing that the kill time is set '
                  '(non-zero) and expired', loc=fw.loc(c),
                  history='a task that reported its startup in time and has '
                  'no execution timeout is killed')
    # the producers
    n_prod = 0
    for mname, f in sorted(K.methods.items()):
        g = cfg_of(f)
        smap = I.stmt_node_map(g)
        for c in calls_in(f.node):
            if not (isinstance(c.func, ast.Attribute) and
                    c.func.attr == 'append' and
                    unparse(c.func.value) == 'self._to_tasks' and c.args and
                    isinstance(c.args[0], (ast.List, ast.Tuple)) and
                    len(c.args[0].elts) >= 2):
                continue
            n_prod += 1
            rep.saw(f)
            x = c.args[0].elts[1]
            an = smap[id(c)]
            defs = []
            if isinstance(x, ast.Name):
                defs = reaching_defs(g, x.id, an.id)
                # augmented definitions: every assignment of the name
                defs = [(n, n.ast) for n in g.stmt_nodes() if n.kind == 'stmt'
                        and isinstance(n.ast, (ast.Assign, ast.AugAssign)) and
                        x.id in {t.id for t in (
                            n.ast.targets if isinstance(n.ast, ast.Assign)
                            else [n.ast.target]) if isinstance(t, ast.Name)}]
            else:
                defs = [(an, None)]
            armed = []
            for n, a in defs:
                val = a.value if a is not None else x
                if any(call_name(cc) == 'time.time' for cc in calls_in(val)):
                    armed.append((n, a, val))
            okp = True
            why = ''
            for n, a, val in armed:
                # the operand the clock is added to (the timeout)
                other = None
                if isinstance(a, ast.AugAssign):
                    other = a.target
                elif isinstance(val, ast.BinOp) and isinstance(val.op, ast.Add):
                    lt = any(call_name(cc) == 'time.time'
                             for cc in calls_in(val.left))
                    other = val.right if lt else val.left
                if other is None:
                    raise AnalysisError('UNRECOGNISED-IDIOM %s: kill time `%s`'
                                        % (f.where, short(val, 50)))
                if isinstance(other, ast.BoolOp):
                    forms = {unparse(v) for v in other.values}
                else:
                    forms = {unparse(other)}
                tests = [(t.id, 'T') for t in g.nodes if t.kind == 'test' and
                         unparse(t.ast) in forms]
                r = g.reachable(g.entry.id, skip_edges=tests)
                if n.id in r:
                    okp = False
                    why = short(a if a is not None else val, 60)
            rep.check(okp, rid, f, '%s: the clock is added to the timeout only '
                      'when the timeout is non-zero' % f.qual,
                      construct='%s:arm' % f.qual, message='%s arms a kill '
                      'time with `%s` without testing that the timeout it '
                      'adds is non-zero: the watcher treats 0 as "do not '
                      'kill", now + 0 is a kill time that has already passed'
                      % (f.qual, why), loc=f.loc(c),
                      history='task with startup_timeout=30 and no execution '
                      'timeout reports startup after 1 s: it is killed at '
                      'once and ends CANCELED although nobody asked for it')
    if n_prod < 2:
        raise AnalysisError('R05.6: only %d producers of timeout entries found'
                            % n_prod)


# ------------------------------------------------------------------------------
#
def run(prog, rep, tier):
    rep.decided = ('route table: every pushing hand-on to a non-final state '
        'has an output row in its component and a consumer with a worker on '
        'the same (state, queue); exit code 0 <=> DONE, otherwise FAILED with '
        'exit code and exception recorded; the client takes the final state '
        'from target_state and FAILED from its handler; a raising worker '
        'fails its things and the component survives; every stager isolates '
        'failures per task, records the exception on that task and fails '
        'only that task; the client output stager hands each task on once; '
        'FAILED/CANCELED advances record target_state, are published and '
        'never pushed, the agent hands the full task back.  Exactly-once '
        'finishing in the executor is C07, Master._result_cb is R20.4.')
    rep.undecided = ('composition of the ten components under arbitrary '
        'message delivery orders; liveness of the pipeline as a whole.')
    rep.assumptions = ['zmq queues deliver what is put into them',
                       'effect calls are atomic']
    rep.attempt(r05_1, prog, rep)
    rep.attempt(r05_2, prog, rep)
    rep.attempt(r05_3, prog, rep)
    rep.attempt(r05_4, prog, rep)
    rep.attempt(r05_4b, prog, rep)
    rep.attempt(r05_5, prog, rep)
    rep.attempt(r05_6, prog, rep)
    # exactly one final state when process exit and cancel coincide
    from .c07 import r07_2
    rep.attempt(r07_2, prog, rep, rid='R07.2')


# ------------------------------------------------------------------------------
_U  = 'utils/component.py'
_P  = 'agent/executing/popen.py'
_TO = 'tmgr/staging_output/default.py'
_TI = 'tmgr/staging_input/default.py'
_AI = 'agent/staging_input/default.py'
_AO = 'agent/staging_output/default.py'
_SB = 'agent/scheduler/base.py'
_EB = 'agent/executing/base.py'
_A0 = 'agent/agent_0.py'
_TS = 'tmgr/scheduler/base.py'

MUTATIONS = [
    dict(name='R05.1 scheduler pushes to a state without output row', rules=('R05.1',), edits=[
        (_SB, "        self.register_output(rps.AGENT_EXECUTING_PENDING,\n                             rpc.AGENT_EXECUTING_QUEUE)\n\n        # re-register the control callback", "        self.register_output(rps.AGENT_EXECUTING,\n                             rpc.AGENT_EXECUTING_QUEUE)\n\n        # re-register the control callback")]),
    dict(name='R05.1 executor output goes to a queue nobody reads', rules=('R05.1',), edits=[
        (_EB, "        self.register_output(rps.AGENT_STAGING_OUTPUT_PENDING,\n                             rpc.AGENT_STAGING_OUTPUT_QUEUE)", "        self.register_output(rps.AGENT_STAGING_OUTPUT_PENDING,\n                             rpc.AGENT_COLLECTING_QUEUE)")]),
    dict(name='R05.1 agent output stager listens on the wrong state', rules=('R05.1',), edits=[
        (_AO, "        self.register_input(rps.AGENT_STAGING_OUTPUT_PENDING,\n                            rpc.AGENT_STAGING_OUTPUT_QUEUE, self.work)", "        self.register_input(rps.AGENT_STAGING_OUTPUT,\n                            rpc.AGENT_STAGING_OUTPUT_QUEUE, self.work)")]),
    dict(name='R05.1 agent relay drops the return route', rules=('R05.1',), edits=[
        (_A0, "        self.register_output(rps.TMGR_STAGING_OUTPUT_PENDING,\n                             rpc.PROXY_TASK_QUEUE)\n", "")]),
    dict(name='R05.1 tmgr scheduler pushes the wrong state', rules=('R05.1',), edits=[
        (_TS, "                        self.advance(early_tasks, rps.TMGR_STAGING_INPUT_PENDING,\n                                     publish=True, push=True)", "                        self.advance(early_tasks, rps.TMGR_STAGING_INPUT,\n                                     publish=True, push=True)")]),
    dict(name='R05.1 input worker method does not exist', rules=('R05.1',), edits=[
        (_AO, "                            rpc.AGENT_STAGING_OUTPUT_QUEUE, self.work)", "                            rpc.AGENT_STAGING_OUTPUT_QUEUE, self.do_work)")]),
    dict(name='R05.2 exit code test inverted', rules=('R05.2',), edits=[
        (_P, "                if exit_code == 0:\n                    # The task finished cleanly", "                if exit_code != 0:\n                    # The task finished cleanly")]),
    dict(name='R05.2 every exited task is DONE', rules=('R05.2',), edits=[
        (_P, "                    task['exception_detail'] = 'exit code: %s' % exit_code\n                    task['target_state']     = rps.FAILED\n", "                    task['exception_detail'] = 'exit code: %s' % exit_code\n                    task['target_state']     = rps.DONE\n")]),
    dict(name='R05.2 failing exit code not recorded', rules=('R05.2',), edits=[
        (_P, "                    # task failed (we still run staging output)\n                    task['exit_code']        = exit_code\n", "                    # task failed (we still run staging output)\n")]),
    dict(name='R05.2 failing task has no exception', rules=('R05.2',), edits=[
        (_P, "                    task['exception']        = 'RuntimeError(\"task failed\")'\n", "")]),
    dict(name='R05.2 signalled processes count as success', rules=('R05.2',), edits=[
        (_P, "                if exit_code == 0:\n                    # The task finished cleanly", "                if exit_code <= 0:\n                    # The task finished cleanly")],
         note='<= 0: negative codes (killed by signal) become DONE'),
    dict(name='R05.2 client ignores target_state', rules=('R05.2',), edits=[
        (_TO, "            for task in no_staging_tasks:\n                task['state'] = task['target_state']\n", "            for task in no_staging_tasks:\n                task['state'] = rps.DONE\n")]),
    dict(name='R05.2 staging error ends as DONE', rules=('R05.2',), edits=[
        (_TO, "                self.advance(task, rps.FAILED, publish=True, push=False)", "                self.advance(task, rps.DONE, publish=True, push=False)")]),
    dict(name='R05.3 worker errors end the component', rules=('R05.3',), edits=[
        (_U, "                    if state:\n                        for thing in things:\n                            thing['exception']        = repr(e)", "                    raise\n                    if state:\n                        for thing in things:\n                            thing['exception']        = repr(e)")]),
    dict(name='R05.3 failed things are not handed on', rules=('R05.3',), edits=[
        (_U, "                        self.advance(things, rps.FAILED, publish=True,\n                                                         push=False)\n\n        # keep work_cb registered", "        # keep work_cb registered")]),
    dict(name='R05.3 worker exception not recorded', rules=('R05.3',), edits=[
        (_U, "                            thing['exception']        = repr(e)\n                            thing['exception_detail'] = \\\n                                             '\\n'.join(ru.get_exception_trace())\n", "                            pass\n")]),
    dict(name='R05.3 only KeyError is caught around the worker', rules=('R05.3',), edits=[
        (_U, "                except Exception as e:\n\n                    # this is not fatal -- only the 'things' fail, not", "                except KeyError as e:\n\n                    # this is not fatal -- only the 'things' fail, not")]),
    dict(name='R05.3 work loop ends on the first error', rules=('R05.3',), edits=[
        (_U, "            except:\n                self._log.exception('work cb error [ignored]')", "            except:\n                self._log.exception('work cb error')\n                break")]),
    dict(name='R05.4 agent input stager: one failure fails the bulk', rules=('R05.4',), edits=[
        (_AI, "            try:\n                self._handle_task_staging(task, actionables)\n\n            except Exception as e:\n                self._log.exception('staging error')\n                task['exception']        = repr(e)\n                task['exception_detail'] = '\\n'.join(ru.get_exception_trace())\n\n                self.advance(task, rps.FAILED)\n", "            self._handle_task_staging(task, actionables)\n")]),
    dict(name='R05.4 agent output stager swallows the error', rules=('R05.4',), edits=[
        (_AO, "                self._log.exception('staging error')\n                task['exception']        = repr(e)\n                task['exception_detail'] = '\\n'.join(ru.get_exception_trace())\n\n                self.advance(task, rps.FAILED)", "                self._log.exception('staging error')\n                task['exception']        = repr(e)\n                task['exception_detail'] = '\\n'.join(ru.get_exception_trace())")]),
    dict(name='R05.4 tmgr input stager fails the wrong list', rules=('R05.4',), edits=[
        (_TI, "        self._advance_tasks(to_fail, state=rps.FAILED, push=False)", "        self._advance_tasks(to_fail, state=rps.CANCELED, push=False)")]),
    dict(name='R05.4 tmgr output stager does not record the error (F21 reverted)', rules=('R05.4',), edits=[
        (_TO, "                task['exception']        = repr(e)\n                task['exception_detail'] = '\\n'.join(ru.get_exception_trace())\n                self.advance(task, rps.FAILED, publish=True, push=False)", "                self.advance(task, rps.FAILED, publish=True, push=False)")]),
    dict(name='R05.4 exception recorded on the bulk, not the task', rules=('R05.4',), edits=[
        (_AI, "                task['exception']        = repr(e)\n                task['exception_detail'] = '\\n'.join(ru.get_exception_trace())\n\n                self.advance(task, rps.FAILED)", "                tasks[0]['exception']        = repr(e)\n\n                self.advance(task, rps.FAILED)")]),
    dict(name='R05.4b staged task advanced twice (F20 reverted)', rules=('R05.4b',), edits=[
        (_TO, "                self._handle_task(task, actionables)\n            except Exception as e:", "                self._handle_task(task, actionables)\n                self.advance(task, publish=True, push=True)\n            except Exception as e:")]),
    dict(name='R05.4b staged task never advanced', rules=('R05.4b',), edits=[
        (_TO, "        task['state'] = task['target_state']\n        self.advance(task, publish=True, push=True)\n\n\n# ---", "        task['state'] = task['target_state']\n\n\n# ---")]),
    dict(name='R05.5 agent pushes failed tasks downstream', rules=('R05.5',), edits=[
        (_U, "                thing['control']      = 'tmgr_pending'\n                thing['$all']         = True\n\n              # FIXME: something like this should be done on `stage_on_error`\n              # if thing['description'].get('stage_on_error'):\n              #     thing['state'] = rps.TMGR_STAGING_OUTPUT_PENDING\n              # else:\n              #     thing['state'] = state\n\n            publish = True\n            push    = False\n", "                thing['control']      = 'tmgr_pending'\n                thing['$all']         = True\n\n            publish = True\n")]),
    dict(name='R05.5 agent does not hand the full task back', rules=('R05.5',), edits=[
        (_U, "                thing['control']      = 'tmgr_pending'\n                thing['$all']         = True\n", "                thing['control']      = 'tmgr_pending'\n")]),
    dict(name='R05.5 client does not record target_state', rules=('R05.5',), edits=[
        (_U, "            for thing in things:\n                thing['target_state'] = state\n\n            publish = True\n            push    = False\n\n        super().advance(things=things, state=state, publish=publish, push=push,\n                        qname=qname, ts=ts, fwd=fwd, prof=prof)\n\n\n# ------------------------------------------------------------------------------\n#\nclass AgentComponent", "            publish = True\n            push    = False\n\n        super().advance(things=things, state=state, publish=publish, push=push,\n                        qname=qname, ts=ts, fwd=fwd, prof=prof)\n\n\n# ------------------------------------------------------------------------------\n#\nclass AgentComponent")]),
    dict(name='R05.5 only FAILED is special-cased', rules=('R05.5',), edits=[
        (_U, "        # CANCELED and FAILED is handled on the client side\n        # FIXME: what if `state==None` and `task['state']` is set instead?\n        if state in [rps.FAILED, rps.CANCELED]:", "        # CANCELED and FAILED is handled on the client side\n        # FIXME: what if `state==None` and `task['state']` is set instead?\n        if state in [rps.FAILED]:")]),
    dict(name='R05.6 startup report arms an immediate kill (seed C05-b)', rules=('R05.6',), edits=[
        (_EB, "                cancel_time = task['description'].get('timeout', 0.)\n                if cancel_time:\n                    cancel_time += time.time()\n", "                cancel_time = time.time() + task['description'].get('timeout', 0.)\n")]),
    dict(name='R05.6 watcher kills entries without kill time', rules=('R05.6',), edits=[
        (_EB, "                    if cancel_time:\n                        self._log.warning('task %s timed out after %.2f seconds',\n                                          task['uid'], now - cancel_time)\n                        self._prof.prof('task_timeout', uid=task['uid'])\n                        self.cancel_task(task=task)", "                    if True:\n                        self._prof.prof('task_timeout', uid=task['uid'])\n                        self.cancel_task(task=task)")]),
    dict(name='R07.2 cancel without ownership test (seed C05-a)', rules=('R07.2',), edits=[
        (_P, "            if tid not in self._tasks:\n                return\n            try:\n                del self._tasks[tid]\n            except KeyError:\n                pass\n\n        # task is still running", "            self._tasks.pop(tid, None)\n\n        # task is still running")]),
]

SILENT = [
    dict(name='exit code test as truthiness', edits=[
        (_P, "                if exit_code == 0:\n                    # The task finished cleanly", "                if not exit_code:\n                    # The task finished cleanly")]),
    dict(name='worker handler catches BaseException', edits=[
        (_U, "                except Exception as e:\n\n                    # this is not fatal -- only the 'things' fail, not", "                except BaseException as e:\n\n                    # this is not fatal -- only the 'things' fail, not")]),
    dict(name='failed tasks collected and advanced after the loop (agent input)', edits=[
        (_AI, "                task['exception_detail'] = '\\n'.join(ru.get_exception_trace())\n\n                self.advance(task, rps.FAILED)\n", "                task['exception_detail'] = '\\n'.join(ru.get_exception_trace())\n                to_fail.append(task)\n\n        self.advance(to_fail, rps.FAILED)\n"),
        (_AI, "        for task, actionables in staging_tasks:\n            try:\n                self._handle_task_staging(task, actionables)", "        to_fail = list()\n        for task, actionables in staging_tasks:\n            try:\n                self._handle_task_staging(task, actionables)")]),
    dict(name='route registration with state list', edits=[
        (_AO, "        self.register_input(rps.AGENT_STAGING_OUTPUT_PENDING,\n                            rpc.AGENT_STAGING_OUTPUT_QUEUE, self.work)", "        self.register_input([rps.AGENT_STAGING_OUTPUT_PENDING],\n                            rpc.AGENT_STAGING_OUTPUT_QUEUE, self.work)")]),
    dict(name='flags forced in the other order', edits=[
        (_U, "            publish = True\n            push    = False\n\n        super().advance(things=things, state=state, publish=publish, push=push,\n                        qname=qname, ts=ts, fwd=fwd, prof=prof)\n\n\n# ------------------------------------------------------------------------------\n#\nclass AgentComponent", "            push    = False\n            publish = True\n\n        super().advance(things=things, state=state, publish=publish, push=push,\n                        qname=qname, ts=ts, fwd=fwd, prof=prof)\n\n\n# ------------------------------------------------------------------------------\n#\nclass AgentComponent")]),
    dict(name='exit code recorded before the branch', edits=[
        (_P, "                    task['exit_code']    = exit_code\n                    task['target_state'] = rps.DONE\n", "                    task['target_state'] = rps.DONE\n"),
        (_P, "                    # task failed (we still run staging output)\n                    task['exit_code']        = exit_code\n", "                    # task failed (we still run staging output)\n"),
        (_P, "                self._prof.prof('unschedule_start', uid=tid)\n\n                if exit_code == 0:", "                self._prof.prof('unschedule_start', uid=tid)\n                task['exit_code'] = exit_code\n\n                if exit_code == 0:")]),
]
