"""C18  The pilot offers exactly the nodes it was allocated  (DESIGN 5 / C18)

R18.1  every RM class of ResourceManager.get_manager's table assigns
       rm_info.node_list from self._get_node_list(<nodes>, rm_info) (or lets
       super() do it) on every path to its return, writes it nowhere else and
       returns the RMInfo it was given                 (ownership rule, 5.0)
R18.2  _get_node_list: one entry per element of `nodes`, index drawn from
       enumerate(nodes), name / core vector from the node tuple, GPU vector
       from rm_info.gpus_per_node, vectors initialised FREE
R18.3  _filter_nodes: reduction to [:requested_nodes] on every path where the
       list is longer; agent/service nodes are pop()ped (moved); the
       empty-list raise is the last thing to look at the list
R18.4  __init__: the registry write is dominated by _init_from_scratch (which
       filters on every path to its return) and carries its result; nothing
       else filters or rebuilds the list; the registry read path does not
       filter again; both paths hand the same variable to _set_info
R18.5  _parse_nodefile: one tuple per distinct host name (keyed collection)
R18.6  the loops marking blocked cores / GPUs DOWN range over the complete
       rm_info.node_list (iteration domain: no slice / filter / early exit /
       per-node skip), after the RM built the list, and over the configured
       blocked list of the same kind
R18.7  an RM which decides membership of node-file entries by their slot
       count does not hand `cpn` to _parse_nodefile (cpn overrides the count
       of every host: the test could not tell pseudo nodes from compute nodes)
R18.8  the RMInfo attributes which size the node entries (read by
       _get_node_list, or put into the node tuples handed to it) are final
       when the entries are built: no store to them can follow on a path of
       init_from_scratch; _init_from_scratch only adjusts them afterwards
R18.9  the marking of the blocked cores (GPUs) is reached whenever the
       configured list of that kind is non-empty, whatever the other list
       holds (guards evaluated over empty / non-empty lists)
R18.10 _get_cores_per_node has no normal return for a node list with two or
       more distinct slot counts (guard evaluated over the number of
       distinct counts)
R18.11 the registry key the RMInfo is written under is the key it is read
       from (normal form of the string-building expressions)
R18.12 an RM which consults rm_info.threads_per_core hands it to a parameter
       of _parse_nodefile from which the returned slot count derives (or puts
       it into the tuples itself)
R18.13 a find()-cursor loop of an RM drops exactly the separator between two
       chunks: chunk offset + advance offset == len(separator)
R18.14 the raise by which a count-detecting helper (one count drawn from a set
       of detected counts) refuses two or more distinct counts leaves
       init_from_scratch: a handler on its way which catches that type
       re-raises it (tests on the message evaluated on the text raised) - or
       nothing behind the handler sizes all hosts with one count
"""

import ast

from ..model import (walk, call_name, kwarg, unparse, short, UNKNOWN,
                     AnalysisError, calls_in)
from ..cfg import cfg_of
from ..flow import must_pass
from .. import idioms as I
from . import c01

RM = ('agent/resource_manager/base.py', 'ResourceManager')


# ------------------------------------------------------------------------------
#
def rm_table(prog, rep):
    """{name: ClassInfo} from the `impl` dict literal of get_manager"""
    f = prog.method(RM[0], RM[1], 'get_manager')
    rep.saw(f)
    li = f.module.local_imports(f.node)
    tables = [n for n in walk(f.node) if isinstance(n, ast.Assign) and
              isinstance(n.value, ast.Dict) and n.value.keys]
    if len(tables) != 1:
        raise AnalysisError('UNRECOGNISED-IDIOM %s: expected one table, found '
                            '%d' % (f.where, len(tables)))
    out = {}
    for k, v in zip(tables[0].value.keys, tables[0].value.values):
        key = prog.fold(f.module, k, f.cls) if k is not None else UNKNOWN
        r = prog.resolve(f.module, v, li)
        if key is UNKNOWN or not r or r[0] != 'class':
            # reported by C17 (R17.1t); here the class simply is not analysable
            raise AnalysisError('row %s: %s of %s does not resolve to a class '
                                '(see C17 R17.1t)' % (short(k), short(v),
                                                      f.where))
        out[key] = r[1]
    return out


def _is_node_list(expr, var=None):
    """<var>.node_list / <var>['node_list']"""
    if isinstance(expr, ast.Attribute) and expr.attr == 'node_list':
        return var is None or (isinstance(expr.value, ast.Name) and
                               expr.value.id == var)
    if isinstance(expr, ast.Subscript) and \
            isinstance(expr.slice, ast.Constant) and \
            expr.slice.value == 'node_list':
        return var is None or (isinstance(expr.value, ast.Name) and
                               expr.value.id == var)
    return False


def _field(expr, name, var=None):
    if isinstance(expr, ast.Attribute) and expr.attr == name:
        return var is None or (isinstance(expr.value, ast.Name) and
                               expr.value.id == var)
    if isinstance(expr, ast.Subscript) and \
            isinstance(expr.slice, ast.Constant) and expr.slice.value == name:
        return var is None or (isinstance(expr.value, ast.Name) and
                               expr.value.id == var)
    return False


def node_list_writes(f, var=None):
    """[(kind, ast stmt/call)] of writes to <x>.node_list in f: 'assign',
    'aug', 'del', 'mutate' (append/extend/insert/pop/remove/...), 'item'
    (x.node_list[i] = ..)"""
    out = []
    for kind, target, stmt in I.stores(f.node, nested=True):
        if _is_node_list(target, var):
            out.append((kind, stmt))
        elif isinstance(target, ast.Subscript) and \
                _is_node_list(target.value, var) and kind in ('assign', 'aug',
                                                               'del'):
            out.append(('item', stmt))
    return out


# ------------------------------------------------------------------------------
# R18.1
#
def r18_1(prog, rep, table, rid='R18.1', minimum=26):
    rep.rule(rid, 'every RM of the factory table assigns rm_info.node_list '
             'from self._get_node_list(nodes, rm_info) (or through super()) on '
             'every path to its return, writes the list nowhere else and '
             'returns the RMInfo it was handed', minimum=minimum)
    base = prog.cls(*RM)
    builders = set()
    done = {}

    def analyse(K, f):
        """-> True if f (init_from_scratch as seen by K) discharges; reports"""
        key = (K.where, f.where)
        if key in done:
            return done[key]
        done[key] = True                       # recursion guard
        rep.saw(f)
        params = [p for p in f.params if p != 'self']
        if not params:
            raise AnalysisError('UNRECOGNISED-IDIOM %s: no rm_info parameter'
                                % f.where)
        var = params[0]
        g = cfg_of(f)
        smap = I.stmt_node_map(g)
        rep.stat('cfg_nodes', len(g.nodes))
        good = []
        okay = True
        for kind, stmt in node_list_writes(f):
            n = smap.get(id(stmt))
            v = stmt.value if isinstance(stmt, ast.Assign) else None
            if isinstance(v, ast.Name):
                # built into a temporary first: nl = self._get_node_list(..)
                a = _local_alias(f, v.id)
                if isinstance(a, ast.Call):
                    v = a
            if kind == 'assign' and isinstance(v, ast.Call) and \
                    call_name(v) == 'self._get_node_list' and \
                    any(_is_node_list(t, var) for t in stmt.targets):
                callee = prog.resolve_call(f, v, K)
                if callee is None:
                    raise AnalysisError('%s: self._get_node_list does not '
                                        'resolve for %s' % (f.where, K.name))
                builders.add(callee)
                info = kwarg(v, 'rm_info', 1)
                passed = isinstance(info, ast.Name) and info.id == var
                rep.check(passed, rid, f, '%s: _get_node_list is given the '
                          'RMInfo under construction' % K.name, construct=stmt,
                          message='%s.%s builds the node list with `%s` '
                          'instead of its own RMInfo `%s`: the configured '
                          'gpus/lfs/mem per node are not the ones used'
                          % (K.name, f.name, short(info), var),
                          loc=f.loc(stmt),
                          history='platform with gpus_per_node=4: nodes are '
                          'offered with another GPU count')
                okay &= passed
                if n is not None:
                    good.append(n.id)
                continue
            okay = False
            rep.bad(rid, f, stmt, 'node list written outside the owner: %s '
                    'in %s.%s (%s).  Every RM must obtain the list from '
                    'self._get_node_list(), which alone guarantees one entry '
                    'per allocated node, unique enumerate() indices and the '
                    'configured core/GPU vectors (R18.2)'
                    % (short(stmt, 70), K.name, f.name, kind), f.loc(stmt),
                    history='a node file with two hosts: the hand-built list '
                    'can carry duplicate indices or wrongly sized core/GPU '
                    'vectors, which the scheduler then hands to tasks')
        # delegation to the super class implementation
        for c in calls_in(f.node):
            if call_name(c) == 'super().' + f.name:
                callee = prog.resolve_call(f, c, K)
                n = smap.get(id(c))
                if callee is None or callee.cls is base:
                    continue
                a0 = c.args[0] if c.args else kwarg(c, var)
                if analyse(K, callee) and isinstance(a0, ast.Name) and \
                        a0.id == var and n is not None:
                    good.append(n.id)
        covered = bool(good) and must_pass(g, g.entry.id, g.exit.id, good)
        rep.check(covered, rid, f, '%s: every path of %s to its return passes '
                  'rm_info.node_list = self._get_node_list(..)'
                  % (K.name, f.name), construct='%s:paths' % K.name,
                  message='%s.%s can return without having assigned '
                  'rm_info.node_list from self._get_node_list(): the base '
                  'class then filters an empty or stale list'
                  % (K.name, f.name), loc=f.loc(),
                  history='the branch of %s.%s which skips the assignment: '
                  '`assert rm_info.requested_nodes <= len(node_list)` fails '
                  'or RMInfo.verify() rejects the empty list, the agent dies'
                  % (K.name, f.name))
        okay &= covered
        # what is returned is the RMInfo handed in
        rets = [n for n in walk(f.node) if isinstance(n, ast.Return)]
        falls = any(not (g.nodes[e.src].kind == 'stmt' and
                         isinstance(g.nodes[e.src].ast, ast.Return))
                    for e in g.pred[g.exit.id])
        bad_ret = [r for r in rets if not (
            isinstance(r.value, ast.Name) and r.value.id == var or
            isinstance(r.value, ast.Call) and
            call_name(r.value) == 'super().' + f.name)]
        rebound = [n for n in walk(f.node) if isinstance(n, ast.Assign) and
                   any(isinstance(t, ast.Name) and t.id == var
                       for t in n.targets) and not (
                       isinstance(n.value, ast.Call) and
                       call_name(n.value) == 'super().' + f.name)]
        rok = not bad_ret and not falls and not rebound
        why = 'falls off its end (returns None)' if falls else \
            're-binds `%s`' % var if rebound else \
            'returns `%s`' % short(bad_ret[0].value) if bad_ret else ''
        rep.check(rok, rid, f, '%s: %s returns the RMInfo it was handed'
                  % (K.name, f.name), construct='%s:return' % K.name,
                  message='%s.%s %s: ResourceManager._init_from_scratch '
                  'continues with whatever is returned'
                  % (K.name, f.name, why), loc=f.loc(),
                  history='any pilot on this batch system: rm_info is None / '
                  'another object in _init_from_scratch, blocked cores and '
                  'filtering are applied to the wrong list')
        okay &= rok
        done[key] = okay
        return okay

    n_cls = 0
    for name, K in sorted(table.items()):
        f = prog.find_method(K, 'init_from_scratch')
        if f is None or f.cls is base:
            rep.bad(rid, K, '%s:init_from_scratch' % K.name,
                    'RM class %s (table row %r) does not implement '
                    'init_from_scratch: the base class raises '
                    'NotImplementedError' % (K.name, name), K.where,
                    history='resource config with resource_manager=%r' % name)
            continue
        n_cls += 1
        analyse(K, f)
    rep.stat('rm_classes', n_cls)
    if not builders:
        builders.add(prog.method(RM[0], RM[1], '_get_node_list'))
    return builders


# ------------------------------------------------------------------------------
# R18.2
#
def r18_2(prog, rep, builders, rid='R18.2'):
    rep.rule(rid, '_get_node_list: one dict per element of `nodes`, index from '
             'enumerate(nodes), name and core vector from the node tuple, GPU '
             'vector from rm_info.gpus_per_node, vectors filled with FREE',
             minimum=6)
    free = prog.const('constants.py', 'FREE')
    for f in sorted(builders, key=lambda x: x.where):
        rep.saw(f)
        params = [p for p in f.params if p != 'self']
        if len(params) < 2:
            raise AnalysisError('UNRECOGNISED-IDIOM %s: parameters %s'
                                % (f.where, params))
        nodes_p, info_p = params[0], params[1]
        # the dict literal with an 'index' key and the loop it sits in
        site = None
        filtered = False
        for n in walk(f.node):
            if isinstance(n, ast.ListComp) and isinstance(n.elt, ast.Dict) and \
                    len(n.generators) == 1:
                gen = n.generators[0]
                site = (n.elt, gen.target, gen.iter, n, None)
                filtered = bool(gen.ifs)
            elif isinstance(n, ast.For):
                for c in calls_in(n):
                    if isinstance(c.func, ast.Attribute) and \
                            c.func.attr == 'append' and c.args and \
                            isinstance(c.args[0], ast.Dict):
                        site = (c.args[0], n.target, n.iter, n,
                                unparse(c.func.value))
        if site is None:
            raise AnalysisError('UNRECOGNISED-IDIOM %s: no list of node dicts '
                                'built by a comprehension or an append loop'
                                % f.where)
        dct, target, it, loop, acc = site
        keys = {}
        for k, v in zip(dct.keys, dct.values):
            if isinstance(k, ast.Constant):
                keys[k.value] = v
        for need in ('name', 'index', 'cores', 'gpus'):
            if need not in keys:
                rep.bad(rid, f, 'key:%s' % need, 'the node dicts built by %s '
                        'lack the key %r' % (f.qual, need), f.loc(dct),
                        history='every pilot: the scheduler reads node[%r]'
                        % need)
        if not all(k in keys for k in ('name', 'index', 'cores', 'gpus')):
            continue
        # iteration: enumerate(<nodes>[, start]) over the whole parameter
        idx_var = elt_var = None
        whole = False
        if isinstance(it, ast.Call) and call_name(it) == 'enumerate' and \
                it.args and isinstance(target, ast.Tuple) and \
                len(target.elts) == 2 and \
                all(isinstance(e, ast.Name) for e in target.elts):
            idx_var, elt_var = target.elts[0].id, target.elts[1].id
            whole = isinstance(it.args[0], ast.Name) and \
                it.args[0].id == nodes_p
            rebinds = [n for n in walk(f.node) if isinstance(n, ast.Assign)
                       and any(isinstance(t, ast.Name) and t.id == nodes_p
                               for t in n.targets)]
            whole = whole and not rebinds
        elif isinstance(target, ast.Name):
            elt_var = target.id
            whole = isinstance(it, ast.Name) and it.id == nodes_p
        else:
            raise AnalysisError('UNRECOGNISED-IDIOM %s: loop `%s in %s`'
                                % (f.where, short(target), short(it)))
        if acc is not None:
            # append loop: the append must not be conditional
            lg = cfg_of(f)
            lmap = I.stmt_node_map(lg)
            for c in calls_in(loop):
                if isinstance(c.func, ast.Attribute) and \
                        c.func.attr == 'append' and c.args and \
                        c.args[0] is dct and id(c) in lmap:
                    # an iteration of the loop which avoids the append
                    from ..flow import loop_slice
                    an = lmap[id(c)]
                    if not an.loops:
                        raise AnalysisError('UNRECOGNISED-IDIOM %s: append '
                                            'outside of a loop' % f.where)
                    head = an.loops[-1]
                    start = loop_slice(lg, head)[0]
                    filtered = start != an.id and head in lg.reachable(
                        start, skip_nodes={an.id})
        rep.check(whole and not filtered, rid, f, 'one entry per element of '
                  'the parameter %r' % nodes_p,
                  construct='iter:%s%s' % (short(it), ':filtered' if filtered
                                           else ''),
                  message='%s iterates `%s`%s, not the complete node tuple '
                  'list %r: allocated nodes are dropped or duplicated'
                  % (f.qual, short(it), ' under a filter' if filtered else '',
                     nodes_p), loc=f.loc(loop),
                  history='nodes = [(n1, 8), (n2, 8)]: the offered list does '
                  'not have exactly the entries n1, n2')
        iv = keys['index']
        rep.check(idx_var is not None and isinstance(iv, ast.Name) and
                  iv.id == idx_var, rid, f, "'index' is the enumerate() "
                  'counter', construct="index:%s" % short(iv),
                  message="%s sets node['index'] to `%s`, which is not the "
                  'counter of enumerate(%s): indices are not unique per node'
                  % (f.qual, short(iv), nodes_p), loc=f.loc(iv),
                  history='two allocated nodes receive the same index; slots '
                  'of a task placed on the second node name the first (jsrun '
                  'ERF files, _change_slot_states address nodes by index)')

        def elt_item(e, i):
            return isinstance(e, ast.Subscript) and \
                isinstance(e.value, ast.Name) and e.value.id == elt_var and \
                isinstance(e.slice, ast.Constant) and e.slice.value == i

        rep.check(elt_item(keys['name'], 0), rid, f, "'name' is element 0 of "
                  'the node tuple', construct='name:%s' % short(keys['name']),
                  message="%s sets node['name'] to `%s`, not to the host name "
                  'of the node tuple' % (f.qual, short(keys['name'])),
                  loc=f.loc(keys['name']),
                  history='tasks are launched on a host which is not the '
                  'allocated one')

        def vector(e):
            """([FREE] * n) -> (fill value, n expr) | None"""
            if isinstance(e, ast.BinOp) and isinstance(e.op, ast.Mult):
                for lst, cnt in ((e.left, e.right), (e.right, e.left)):
                    if isinstance(lst, ast.List) and len(lst.elts) == 1:
                        return prog.fold(f.module, lst.elts[0], f.cls), cnt
            return None

        for key, what in (('cores', 'core'), ('gpus', 'GPU')):
            vec = vector(keys[key])
            if vec is None:
                raise AnalysisError('UNRECOGNISED-IDIOM %s: %r vector `%s`'
                                    % (f.where, key, short(keys[key])))
            fill, cnt = vec
            filled = fill is not UNKNOWN and fill == free and \
                type(fill) == type(free)
            rep.check(filled, rid, f, '%s vector is initialised FREE' % what,
                      construct='%s:fill' % key,
                      message='%s fills the %s vector with %r instead of '
                      'rpc.FREE: nothing (or everything) of a fresh node is '
                      'schedulable' % (f.qual, what, fill),
                      loc=f.loc(keys[key]),
                      history='first task on a fresh pilot')
            if key == 'cores':
                sized = elt_item(cnt, 1)
                msg = 'element 1 of the node tuple (its core count)'
            else:
                sized = _field(cnt, 'gpus_per_node', info_p)
                msg = '%s.gpus_per_node' % info_p
            rep.check(sized, rid, f, '%s vector is sized by %s' % (what, msg),
                      construct='%s:size' % key,
                      message='%s sizes the %s vector by `%s`, not by %s'
                      % (f.qual, what, short(cnt), msg), loc=f.loc(keys[key]),
                      history='platform with 8 cores and 2 GPUs per node: the '
                      'node is offered with another number of %ss' % what)
        # what is returned is that list
        res = None
        for n in walk(f.node):
            if isinstance(n, ast.Assign) and n.value is loop and \
                    len(n.targets) == 1 and isinstance(n.targets[0], ast.Name):
                res = n.targets[0].id
        if acc is not None:
            res = acc
        rets = [n for n in walk(f.node) if isinstance(n, ast.Return)]
        rok = bool(rets) and all(
            r.value is loop or isinstance(r.value, ast.Name) and
            r.value.id == res for r in rets)
        rep.check(rok, rid, f, 'the list built is what is returned',
                  construct='return',
                  message='%s does not return the list it built: `%s`'
                  % (f.qual, '; '.join(short(r) for r in rets)), loc=f.loc(),
                  history='every pilot')


# ------------------------------------------------------------------------------
# R18.3
#
def _local_alias(f, name):
    """the single plain assignment `name = <expr>` in f (else None)"""
    defs = [n for n in walk(f.node) if isinstance(n, ast.Assign) and
            any(isinstance(t, ast.Name) and t.id == name for t in n.targets)]
    if len(defs) == 1:
        return defs[0].value
    return None


def _is_field(f, expr, name):
    if _field(expr, name):
        return True
    if isinstance(expr, ast.Name):
        v = _local_alias(f, expr.id)
        return v is not None and _field(v, name)
    return False


def _is_len_nl(f, expr):
    if isinstance(expr, ast.Call) and call_name(expr) == 'len' and expr.args:
        return _is_node_list(expr.args[0])
    if isinstance(expr, ast.Name):
        v = _local_alias(f, expr.id)
        return v is not None and _is_len_nl(f, v)
    return False


RESERVED = ('agent_node_list', 'service_node_list')
_DEFS = (ast.FunctionDef, ast.AsyncFunctionDef)


def _local_defs(f):
    """{name: FunctionDef} of the functions defined inside f"""
    return {n.name: n for n in ast.walk(f.node)
            if isinstance(n, _DEFS) and n is not f.node}


def _changes_node_list(h, helpers, depth=0):
    """the local function h takes nodes out of / writes <x>.node_list (itself
    or through another local function)"""
    for kind, target, stmt in I.stores(h):
        if _is_node_list(target) or isinstance(target, ast.Subscript) and \
                _is_node_list(target.value):
            return True
    for c in calls_in(h):
        if isinstance(c.func, ast.Name) and c.func.id in helpers and \
                helpers[c.func.id] is not h and depth < 3 and \
                _changes_node_list(helpers[c.func.id], helpers, depth + 1):
            return True
    return False


def _bind_local(h, call, resolve):
    """{parameter of the local function h: resolved argument of call}"""
    a = h.args
    pos = [x.arg for x in a.posonlyargs + a.args]
    out = {}
    for p, v in zip(pos, call.args):
        if isinstance(v, ast.Starred):
            break
        out[p] = resolve(v)
    names = set(pos) | {x.arg for x in a.kwonlyargs}
    for k in call.keywords:
        if k.arg in names:
            out[k.arg] = resolve(k.value)
    return out


def reservations(f):
    """[(receiver text, call, moved, source expr)]: the values added to
    <x>.agent_node_list / <x>.service_node_list in f.  A local helper function
    which adds to one of its parameters counts once per call that hands it one
    of the two lists.  moved: True - the value is <x>.node_list.pop(..);
    False - it is read from a list without leaving node_list; None - unknown"""
    helpers = _local_defs(f)
    out = []

    def plain_defs(scope, name):
        return [n.value for n in walk(scope) if isinstance(n, ast.Assign) and
                any(isinstance(t, ast.Name) and t.id == name
                    for t in n.targets)]

    def scan(scope, binding, depth):

        def resolve(e, d=0):
            while isinstance(e, ast.Name) and d < 8:
                d += 1
                if e.id in binding:
                    return binding[e.id]
                defs = plain_defs(scope, e.id)
                if len(defs) != 1:
                    break
                e = defs[0]
            return e

        def is_pop(v):
            return isinstance(v, ast.Call) and \
                isinstance(v.func, ast.Attribute) and v.func.attr == 'pop'

        def moved(v):
            v = resolve(v)
            if is_pop(v):
                return _is_node_list(resolve(v.func.value)), v
            if isinstance(v, (ast.ListComp, ast.GeneratorExp)):
                return moved(v.elt)
            if isinstance(v, (ast.List, ast.Tuple)) and v.elts:
                ms = [moved(x)[0] for x in v.elts]
                return (True if all(m is True for m in ms) else
                        False if any(m is False for m in ms) else None), v
            if isinstance(v, ast.Subscript) and \
                    _is_node_list(resolve(v.value)):
                return False, v       # a reference: nothing is taken out
            if isinstance(v, ast.Call) and call_name(v) in (
                    'dict', 'copy.copy', 'copy.deepcopy') and v.args:
                return moved(v.args[0])[0], v
            if isinstance(v, (ast.Constant, ast.Dict)):
                return False, v       # a new object
            return None, v

        for c in calls_in(scope):
            if isinstance(c.func, ast.Attribute) and c.args and \
                    c.func.attr in ('append', 'extend', 'insert'):
                recv = resolve(c.func.value)
                which = [r for r in RESERVED if _field(recv, r)]
                if which:
                    m, src = moved(c.args[-1])
                    out.append((unparse(recv), c, m, src))
            elif isinstance(c.func, ast.Name) and c.func.id in helpers and \
                    helpers[c.func.id] is not scope and depth < 3:
                h = helpers[c.func.id]
                scan(h, _bind_local(h, c, resolve), depth + 1)
        for n in walk(scope):
            # <x>.agent_node_list += [..]
            if isinstance(n, ast.AugAssign) and isinstance(n.op, ast.Add):
                recv = resolve(n.target)
                if any(_field(recv, r) for r in RESERVED):
                    m, src = moved(n.value)
                    out.append((unparse(recv), n, m, src))

    scan(f.node, {}, 0)
    return out


def r18_3(prog, rep, rid='R18.3'):
    text = ('_filter_nodes: the list is cut to [:requested_nodes] whenever it '
            'is longer; agent and service nodes are pop()ped out of it; the '
            'empty-list raise comes after the last change')
    rep.rule(rid, text, minimum=4)
    f = prog.method(RM[0], RM[1], '_filter_nodes')
    rep.saw(f)
    g = cfg_of(f)
    smap = I.stmt_node_map(g)
    rep.stat('cfg_nodes', len(g.nodes))

    # (a) reduction
    cuts, wrong = [], []
    for n in g.stmt_nodes():
        if n.kind != 'stmt' or not isinstance(n.ast, ast.Assign):
            continue
        if not any(_is_node_list(t) for t in n.ast.targets):
            continue
        v = n.ast.value
        if isinstance(v, ast.Subscript) and _is_node_list(v.value) and \
                isinstance(v.slice, ast.Slice):
            sl = v.slice
            if sl.lower is None and sl.step is None and sl.upper is not None \
                    and _is_field(f, sl.upper, 'requested_nodes'):
                cuts.append(n)
            else:
                wrong.append(n)
    for n in wrong:
        rep.bad(rid, f, n.ast, '_filter_nodes cuts the node list with `%s`, '
                'not with [:requested_nodes]: the pilot offers more (or '
                'other) nodes than it asked for' % short(n.ast.value),
                f.loc(n.ast),
                history='pilot asking for 2 nodes (+1 backup) on a 3-node '
                'allocation: tasks are placed on 3 nodes / on the backup '
                'node')
    # tests comparing len(node_list) with requested_nodes: the edge on which
    # the list is known not to be longer
    skip = []
    for n in g.nodes:
        if n.kind != 'test' or not isinstance(n.ast, ast.Compare) or \
                len(n.ast.ops) != 1:
            continue
        l, r, op = n.ast.left, n.ast.comparators[0], n.ast.ops[0]
        if _is_len_nl(f, l) and _is_field(f, r, 'requested_nodes'):
            if isinstance(op, (ast.Gt, ast.GtE, ast.NotEq)):
                skip.append((n.id, 'F'))
            elif isinstance(op, (ast.LtE, ast.Lt, ast.Eq)):
                skip.append((n.id, 'T'))
        elif _is_field(f, l, 'requested_nodes') and _is_len_nl(f, r):
            if isinstance(op, (ast.Lt, ast.LtE, ast.NotEq)):
                skip.append((n.id, 'F'))
            elif isinstance(op, (ast.GtE, ast.Gt, ast.Eq)):
                skip.append((n.id, 'T'))
    r = g.reachable(g.entry.id, skip_nodes={n.id for n in cuts},
                    skip_edges=skip)
    rep.check(bool(cuts) and g.exit.id not in r, rid, f, 'every path on which '
              'the list may be longer than requested_nodes passes '
              'node_list = node_list[:requested_nodes]', construct='reduction',
              message='_filter_nodes can return with more nodes in '
              'rm_info.node_list than rm_info.requested_nodes: %s'
              % ('there is no [:requested_nodes] cut' if not cuts else
                 'a path avoids the cut although the list may be longer'),
              loc=f.loc(), history='pilot asking for 2 nodes with 1 backup '
              'node: the batch system allocates 3 nodes and all 3 are '
              'offered to the scheduler')

    # (b) reservation by pop(): every value added to the agent / service list
    # is taken out of node_list (also inside a local helper function which is
    # given the reserved list as an argument)
    res = reservations(f)
    if len(res) < 2:
        raise AnalysisError('%s: reservation of agent/service nodes not found '
                            'in %s (%d site(s))' % (rid, f.where, len(res)))
    for recv, call, moved, src in res:
        if moved is None:
            raise AnalysisError('UNRECOGNISED-IDIOM %s: cannot tell where the '
                                'node added by `%s` comes from (`%s`)'
                                % (f.where, short(call, 60), short(src, 50)))
        rep.check(moved, rid, f, '%s receives a node pop()ped from node_list'
                  % recv, construct='reserve:%s' % recv.split('.')[-1],
                  message='%s receives a node that stays in node_list (`%s`): '
                  'the agent/service node is also offered to tasks'
                  % (recv, short(src, 50)), loc=f.loc(call),
                  history='agent layout with a sub-agent on its own node: a '
                  'task is placed on the sub-agent node')
    # the pops take from the list that is offered
    pops = [smap[id(c)] for c in calls_in(f.node)
            if isinstance(c.func, ast.Attribute) and c.func.attr == 'pop' and
            _is_node_list(c.func.value) and id(c) in smap]

    # (c) the emptiness test
    changes = {n.id for n in cuts} | {n.id for n in pops}
    for kind, stmt in node_list_writes(f):
        n = smap.get(id(stmt))
        if n is not None:
            changes.add(n.id)
    # a local helper function changes the list where it is CALLED
    helpers = _local_defs(f)
    changing = {name for name, h in helpers.items()
                if _changes_node_list(h, helpers)}
    for c in calls_in(f.node):
        if isinstance(c.func, ast.Name) and c.func.id in changing and \
                id(c) in smap:
            changes.add(smap[id(c)].id)
    cands, recognised = [], []
    for n in g.nodes:
        if n.kind != 'test':
            continue
        a = n.ast
        mentions = any(_is_node_list(x) for x in walk(a))
        if not mentions:
            continue
        if any(_is_field(f, x, 'requested_nodes') for x in walk(a)):
            continue                          # the reduction guard
        # edge on which the list is empty
        empty = None
        if _is_node_list(a) or _is_len_nl(f, a):
            empty = 'F'
        elif isinstance(a, ast.Compare) and len(a.ops) == 1 and \
                _is_len_nl(f, a.left) and \
                isinstance(a.comparators[0], ast.Constant):
            c, op = a.comparators[0].value, a.ops[0]
            if c == 0 and isinstance(op, ast.Eq) or \
                    c == 1 and isinstance(op, ast.Lt) or \
                    c == 0 and isinstance(op, ast.LtE):
                empty = 'T'
            elif c == 0 and isinstance(op, (ast.Gt, ast.NotEq)) or \
                    c == 1 and isinstance(op, ast.GtE):
                empty = 'F'
        cands.append(n)
        if empty is not None:
            recognised.append((n, empty))
    final = None
    for n, empty in recognised:
        # the empty edge never reaches the normal return ...
        tgt = [e.dst for e in g.succ[n.id] if e.label == empty]
        raises = tgt and g.exit.id not in g.reachable(tgt)
        # ... every normal return passes the test ...
        all_pass = must_pass(g, g.entry.id, g.exit.id, [n.id])
        # ... and nothing changes the list afterwards
        other = [e.dst for e in g.succ[n.id] if e.label in 'TF' and
                 e.label != empty]
        later = g.reachable(other) & changes if other else set()
        if raises and all_pass and not later:
            final = n
    if final is None and cands and not recognised:
        kinds = [short(n.ast, 60) for n in cands]
        if any(isinstance(n.ast, ast.Compare) and
               isinstance(n.ast.ops[0], (ast.Is, ast.IsNot)) for n in cands):
            pass                              # `is None` is not an emptiness test
        else:
            raise AnalysisError('UNRECOGNISED-IDIOM %s: tests on node_list %s'
                                % (f.where, kinds))
    rep.check(final is not None, rid, f, 'the empty-list raise post-dominates '
              'every change of node_list', construct='non-empty',
              message='_filter_nodes can return normally with an empty '
              'rm_info.node_list: there is no emptiness test (raising) which '
              'every return passes after the last pop()/cut',
              loc=f.loc(), history='one-node pilot with an agent layout that '
              'reserves one node for a sub-agent: node_list is empty, the '
              'scheduler waits forever instead of the pilot failing')


# ------------------------------------------------------------------------------
# R18.4
#
def _resolved(f, e, depth=0):
    """copy of expression e in which the single-assignment locals of f and the
    `self.<attr>` assigned exactly once in f (from a call-free expression over
    self) are replaced by their definition; for comparison by ast.dump"""
    import copy

    def self_attr_def(attr):
        defs = [n.value for n in walk(f.node) if isinstance(n, ast.Assign) and
                any(isinstance(t, ast.Attribute) and t.attr == attr and
                    isinstance(t.value, ast.Name) and t.value.id == 'self'
                    for t in n.targets)]
        return defs[0] if len(defs) == 1 else None

    class R(ast.NodeTransformer):
        def __init__(self):
            self.depth = 0

        def visit_Name(self, node):
            if isinstance(node.ctx, ast.Load) and self.depth < 8:
                v = _local_alias(f, node.id)
                if v is not None:
                    self.depth += 1
                    out = self.visit(copy.deepcopy(v))
                    self.depth -= 1
                    return out
            return node

        def visit_Attribute(self, node):
            if isinstance(node.ctx, ast.Load) and self.depth < 8 and \
                    isinstance(node.value, ast.Name) and \
                    node.value.id == 'self':
                v = self_attr_def(node.attr)
                if v is not None:
                    self.depth += 1
                    out = self.visit(copy.deepcopy(v))
                    self.depth -= 1
                    return out
            return self.generic_visit(node)

    return R().visit(copy.deepcopy(e))


def key_parts(f, e, depth=0):
    """normal form of a string-building expression: [('s', text) | ('e', the
    resolved expression unparsed)] with adjacent texts merged, so that
    'rm.%s' % x, f'rm.{x}', 'rm.' + x, 'rm.{}'.format(x) and a local holding
    any of them are equal.  Raises Unrecognised."""
    def merge(parts):
        out = []
        for k, v in parts:
            if k == 's' and not v:
                continue
            if k == 's' and out and out[-1][0] == 's':
                out[-1] = ('s', out[-1][1] + v)
            else:
                out.append((k, v))
        return out

    def expr(x):
        r = _resolved(f, x)
        if isinstance(r, ast.Call) and call_name(r) == 'str' and \
                len(r.args) == 1 and not r.keywords:
            r = r.args[0]
        return ('e', unparse(r))

    if depth > 8:
        raise Unrecognised('`%s`' % short(e, 50))
    if isinstance(e, ast.Constant) and isinstance(e.value, str):
        return merge([('s', e.value)])
    if isinstance(e, ast.Name):
        v = _local_alias(f, e.id)
        if v is not None:
            return key_parts(f, v, depth + 1)
        return [expr(e)]
    if isinstance(e, ast.JoinedStr):
        parts = []
        for v in e.values:
            if isinstance(v, ast.Constant):
                parts.append(('s', str(v.value)))
            elif isinstance(v, ast.FormattedValue) and \
                    v.format_spec is None and v.conversion in (-1, 115):
                parts += key_parts(f, v.value, depth + 1) \
                    if isinstance(v.value, (ast.Constant, ast.Name)) \
                    else [expr(v.value)]
            else:
                raise Unrecognised('`%s`' % short(e, 50))
        return merge(parts)
    if isinstance(e, ast.BinOp) and isinstance(e.op, ast.Add):
        return merge(key_parts(f, e.left, depth + 1) +
                     key_parts(f, e.right, depth + 1))
    if isinstance(e, ast.BinOp) and isinstance(e.op, ast.Mod) and \
            isinstance(e.left, ast.Constant) and isinstance(e.left.value, str):
        args = list(e.right.elts) if isinstance(e.right, ast.Tuple) \
            else [e.right]
        texts = e.left.value.split('%s')
        if len(texts) != len(args) + 1 or any('%' in t.replace('%%', '')
                                              for t in texts):
            raise Unrecognised('`%s`' % short(e, 50))
        parts = [('s', texts[0].replace('%%', '%'))]
        for a, t in zip(args, texts[1:]):
            parts += key_parts(f, a, depth + 1) \
                if isinstance(a, (ast.Constant, ast.Name)) else [expr(a)]
            parts.append(('s', t.replace('%%', '%')))
        return merge(parts)
    if isinstance(e, ast.Call) and isinstance(e.func, ast.Attribute) and \
            e.func.attr == 'format' and \
            isinstance(e.func.value, ast.Constant) and \
            isinstance(e.func.value.value, str) and not e.keywords:
        texts = e.func.value.value.split('{}')
        if len(texts) != len(e.args) + 1 or any('{' in t or '}' in t
                                                for t in texts):
            raise Unrecognised('`%s`' % short(e, 50))
        parts = [('s', texts[0])]
        for a, t in zip(e.args, texts[1:]):
            parts += key_parts(f, a, depth + 1) \
                if isinstance(a, (ast.Constant, ast.Name)) else [expr(a)]
            parts.append(('s', t))
        return merge(parts)
    if isinstance(e, ast.Call) and isinstance(e.func, ast.Attribute) and \
            e.func.attr in _CASE_METHODS and not e.args and not e.keywords:
        # a case normalisation of the whole key distributes over its parts:
        # ('rm.%s' % x).lower() == 'rm.' + x.lower(); key.lower() of a local
        # holding the un-normalised key is decided the same way
        how = e.func.attr
        return merge([_cased(k, v, how)
                      for k, v in key_parts(f, e.func.value, depth + 1)])
    return [expr(e)]


_CASE_METHODS = ('lower', 'upper', 'casefold')


def _cased(kind, value, how):
    """one part of a key under str.<how>(): texts are folded, expressions are
    wrapped in `.<how>()` (once: the methods are idempotent)"""
    if kind == 's':
        return ('s', getattr(value, how)())
    if value.endswith('.%s()' % how):
        return (kind, value)
    try:
        inner = ast.parse(value, mode='eval').body
    except SyntaxError:
        raise Unrecognised('`%s`' % value[:50])
    return (kind, unparse(ast.Call(
        func=ast.Attribute(value=inner, attr=how, ctx=ast.Load()),
        args=[], keywords=[])))


def _parts_text(parts):
    return ' + '.join(repr(v) if k == 's' else '<%s>' % v
                      for k, v in parts) or "''"


def r18_4(prog, rep, table, rid='R18.4', kid='R18.11'):
    rep.rule(rid, 'the registry write in ResourceManager.__init__ carries the '
             'result of _init_from_scratch (which filters on every path to '
             'its return); nothing else filters or rebuilds; both init paths '
             'feed _set_info', minimum=7)
    base = prog.cls(*RM)
    f = prog.method(RM[0], RM[1], '__init__')
    rep.saw(f)
    g = cfg_of(f)
    smap = I.stmt_node_map(g)
    rep.stat('cfg_nodes', len(g.nodes))

    # registry get / put of 'rm.<name>'
    def is_rm_key(e):
        try:
            parts = key_parts(f, e)
        except Unrecognised:
            return False
        return bool(parts) and parts[0][0] == 's' and \
            parts[0][1].lower().startswith('rm.')

    puts, gets = [], []
    for c in calls_in(f.node):
        if isinstance(c.func, ast.Attribute) and c.args and \
                is_rm_key(c.args[0]):
            if c.func.attr == 'put':
                puts.append(c)
            elif c.func.attr == 'get':
                gets.append(c)
    for n in walk(f.node):
        if isinstance(n, ast.Assign):
            for t in n.targets:
                if isinstance(t, ast.Subscript) and is_rm_key(t.slice):
                    puts.append(n)
    if len(puts) != 1 or not gets:
        raise AnalysisError('UNRECOGNISED-IDIOM %s: %d registry writes / %d '
                            "reads of 'rm.<name>'" % (f.where, len(puts),
                                                      len(gets)))
    put = puts[0]
    pn = smap[id(put)]
    # writer / reader agreement: the key written is the key every other
    # component reads
    rep.rule(kid, 'the registry key ResourceManager.__init__ writes the RMInfo '
             'under is the key it reads it from (same text parts, same '
             'expressions)', minimum=1)
    wkey = put.args[0] if isinstance(put, ast.Call) else put.targets[0].slice
    try:
        wparts = key_parts(f, wkey)
        rparts = [(c, key_parts(f, c.args[0])) for c in gets]
    except Unrecognised as e:
        raise AnalysisError('UNRECOGNISED-IDIOM %s: registry key %s'
                            % (f.where, e))
    for c, parts in rparts:
        rep.check(parts == wparts, kid, f, 'registry key of `%s` == key of '
                  'the write (%s)' % (short(c, 40), _parts_text(wparts)),
                  construct='rm-key', message='ResourceManager.__init__ '
                  'stores the RMInfo under the registry key %s but looks it up '
                  'under %s: the components which create their ResourceManager '
                  'later find no entry, initialise from scratch in their own '
                  'environment and work on another node list (agent / service '
                  'nodes are reserved again or offered to tasks)'
                  % (_parts_text(wparts), _parts_text(parts)),
                  loc=f.loc(put), history='agent_0 initialises the Slurm RM '
                  "from scratch and registers it as 'rm.Slurm'; the scheduler "
                  "of a sub-agent looks up 'rm.slurm', gets nothing and "
                  're-derives the list in its own sandbox (no ./services file): '
                  'the service node is offered for task placement')
    payload = put.args[1] if isinstance(put, ast.Call) and len(put.args) > 1 \
        else put.value if isinstance(put, ast.Assign) else None
    pvars = {x.id for x in walk(payload) if isinstance(x, ast.Name)} \
        if payload is not None else set()

    # rm_info = self._init_from_scratch()
    inits = [n for n in g.stmt_nodes() if n.kind == 'stmt' and
             isinstance(n.ast, ast.Assign) and
             isinstance(n.ast.value, ast.Call) and
             call_name(n.ast.value) == 'self._init_from_scratch' and
             len(n.ast.targets) == 1 and
             isinstance(n.ast.targets[0], ast.Name)]
    if len(inits) != 1:
        raise AnalysisError('UNRECOGNISED-IDIOM %s: %d assignments from '
                            'self._init_from_scratch()' % (f.where,
                                                           len(inits)))
    init = inits[0]
    var = init.ast.targets[0].id
    dom = must_pass(g, g.entry.id, pn.id, [init.id])
    # no re-binding of var between init and put
    rebinds = [n for n in g.stmt_nodes() if n.kind == 'stmt' and n is not init
               and isinstance(n.ast, ast.Assign) and any(
                   isinstance(t, ast.Name) and t.id == var
                   for t in n.ast.targets)
               and n.id in g.reachable(init.id) and pn.id in
               g.reachable(n.id)]
    rep.check(dom and var in pvars and not rebinds, rid, f, 'the registry '
              'write of rm.<name> is dominated by `%s = '
              'self._init_from_scratch()` and carries %s' % (var, var),
              construct=put,
              message='ResourceManager.__init__ writes `%s` to the registry '
              '%s: the other components of the pilot read a node list which '
              'is not the filtered one' % (
                  short(payload), 'on a path which did not run '
                  '_init_from_scratch()' if not dom else 'which is not the '
                  'result of _init_from_scratch()'), loc=f.loc(put),
              history='agent_0 initialises the RM from scratch, the executor '
              'of a sub-agent reads rm.<name> from the registry: the two see '
              'different node lists')
    # the put happens before anything else looks at the list on this path:
    # between init and put only verification
    between = {n.id for n in g.nodes if n.id in g.reachable(init.id) and
               pn.id in g.reachable(n.id)} - {init.id, pn.id}
    changed = []
    for kind, stmt in node_list_writes(f):
        changed.append(stmt)
    for c in calls_in(f.node):
        if call_name(c) in ('self._filter_nodes', 'self.init_from_scratch'):
            changed.append(c)
    rep.check(not changed, rid, f, '__init__ itself neither filters nor '
              'rebuilds the node list', construct=changed[0] if changed else
              'no-refilter',
              message='ResourceManager.__init__ changes the node list itself '
              '(`%s`): depending on where, the registry copy is stale or the '
              'instances initialised from the registry filter a second time '
              '(agent/service nodes are taken out twice)'
              % (short(changed[0]) if changed else ''),
              loc=f.loc(changed[0]) if changed else f.loc(),
              history='pilot with one sub-agent node: components which read '
              'the RM info from the registry reserve another node, the '
              'components disagree on the nodes offered')
    rep.stat('nodes_between_init_and_put', len(between))

    # both paths end in self._set_info(var)
    sets = [smap[id(c)].id for c in calls_in(f.node)
            if call_name(c) == 'self._set_info' and c.args and
            isinstance(c.args[0], ast.Name) and c.args[0].id == var and
            id(c) in smap]
    rep.check(bool(sets) and must_pass(g, g.entry.id, g.exit.id, sets), rid, f,
              'every path of __init__ hands %s to self._set_info' % var,
              construct='set_info', message='ResourceManager.__init__ can '
              'finish without self._set_info(%s): self.info is not the '
              'RMInfo that was registered' % var, loc=f.loc(),
              history='the scheduler reads rm.info.node_list')
    # the registry read path: value of the get flows into var without filter
    getvars = set()
    for n in g.stmt_nodes():
        if n.kind == 'stmt' and isinstance(n.ast, ast.Assign) and any(
                c in gets for c in calls_in(n.ast)):
            for t in n.ast.targets:
                if isinstance(t, ast.Name):
                    getvars.add(t.id)
    rep.check(var in getvars, rid, f, 'the registry read binds the same '
              'variable (%s) the scratch path binds' % var,
              construct='read-path',
              message='the value read from rm.<name> is bound to %s, but '
              '_set_info receives `%s`: the registry content is ignored'
              % (sorted(getvars), var), loc=f.loc(),
              history='sub-agent components re-derive the node list '
              'themselves and reserve agent nodes again')

    # _init_from_scratch: filters on every path to its return, returns the
    # filtered object
    s = prog.method(RM[0], RM[1], '_init_from_scratch')
    rep.saw(s)
    sg = cfg_of(s)
    ssmap = I.stmt_node_map(sg)
    filt = [c for c in calls_in(s.node)
            if call_name(c) == 'self._filter_nodes']
    fnodes = [ssmap[id(c)].id for c in filt if id(c) in ssmap]
    fargs = {c.args[0].id for c in filt
             if c.args and isinstance(c.args[0], ast.Name)}
    rets = [n for n in walk(s.node) if isinstance(n, ast.Return)]
    rvars = {r.value.id for r in rets if isinstance(r.value, ast.Name)}
    okf = bool(fnodes) and must_pass(sg, sg.entry.id, sg.exit.id, fnodes) and \
        len(fargs) == 1 and rvars == fargs and \
        all(isinstance(r.value, ast.Name) for r in rets)
    rep.check(okf, rid, s, '_init_from_scratch calls self._filter_nodes(x) on '
              'every path to `return x`', construct='filter-before-return',
              message='ResourceManager._init_from_scratch can return an '
              'RMInfo which did not pass self._filter_nodes(): the unfiltered '
              'list (backup, agent and service nodes included) is registered '
              'and offered to tasks', loc=s.loc(),
              history='pilot with nodes=2, backup_nodes=1 and a sub-agent '
              'node: 3 nodes are offered, one of them runs the sub-agent')
    # after filtering, nothing rebuilds the list
    after = set()
    for nid in fnodes:
        after |= sg.reachable([e.dst for e in sg.succ[nid]
                               if e.label != 'exc'])
    late = []
    for kind, stmt in node_list_writes(s):
        n = ssmap.get(id(stmt))
        if n is not None and n.id in after:
            late.append(stmt)
    for c in calls_in(s.node):
        if call_name(c) == 'self.init_from_scratch' and id(c) in ssmap and \
                ssmap[id(c)].id in after:
            late.append(c)
    rep.check(not late, rid, s, 'nothing rebuilds or extends the node list '
              'after _filter_nodes', construct=late[0] if late else
              'no-late-write',
              message='ResourceManager._init_from_scratch changes the node '
              'list after filtering: `%s`' % (short(late[0]) if late else ''),
              loc=s.loc(late[0]) if late else s.loc(),
              history='the reserved agent node is back in the list offered '
              'to tasks')
    # _filter_nodes has no other caller among the RM classes
    others = []
    for K in [base] + sorted(set(table.values()), key=lambda k: k.where):
        for mname, m in sorted(K.methods.items()):
            if m is s:
                continue
            for c in calls_in(m.node, nested=True):
                if call_name(c).endswith('._filter_nodes'):
                    others.append((m, c))
    rep.check(not others, rid, base, '_filter_nodes is called from '
              '_init_from_scratch only', construct=others[0][1] if others
              else 'single-caller',
              message='%s calls _filter_nodes as well: a list which was '
              'already reduced is filtered again, a second set of '
              'agent/service nodes is taken out'
              % (others[0][0].where if others else ''),
              loc=others[0][0].loc(others[0][1]) if others else base.where,
              history='pilot with one sub-agent node on 2 nodes: no node is '
              'left for tasks')


# ------------------------------------------------------------------------------
# R18.5   _parse_nodefile: one entry per distinct node name
#
KEYED_CTORS = {'dict', 'set', 'frozenset', 'Counter', 'collections.Counter',
               'defaultdict', 'collections.defaultdict', 'OrderedDict',
               'collections.OrderedDict', 'dict.fromkeys',
               'OrderedDict.fromkeys', 'collections.OrderedDict.fromkeys'}
PASS_THROUGH = {'sorted', 'list', 'tuple', 'reversed', 'enumerate', 'iter'}
LINE_SPLIT   = {'readlines', 'splitlines', 'split'}
DICT_VIEWS   = {'items', 'keys', 'values', 'most_common'}


class Unrecognised(Exception):
    pass


class Uniq:
    """classifies the expression a list of node tuples is drawn from:
      'keyed'    a collection keyed / deduplicated by its elements (dict,
                 Counter, set, dict.fromkeys, groupby over a sorted sequence,
                 or a list filled once per element of such a collection)
      'perline'  one element per line of the file (duplicates kept)
      'adjacent' itertools.groupby over an unsorted per-line sequence: only
                 adjacent equal lines are merged
    """

    def __init__(self, f):
        self.f = f
        self.g = cfg_of(f)
        self.smap = I.stmt_node_map(self.g)
        self.handles = set()
        for n in walk(f.node, nested=True):
            if isinstance(n, ast.With):
                for i in n.items:
                    if isinstance(i.optional_vars, ast.Name):
                        self.handles.add(i.optional_vars.id)
        self.busy = set()

    def sorted_seq(self, e, at):
        if isinstance(e, ast.Call) and call_name(e) == 'sorted':
            return True
        if isinstance(e, ast.Name):
            defs = self.defs(e.id)
            if defs and all(isinstance(v, ast.Call) and
                            call_name(v) == 'sorted' for v in defs):
                return True
            sorts = [self.smap[id(c)].id for c in calls_in(self.f.node)
                     if call_name(c) == e.id + '.sort' and id(c) in self.smap]
            node = self.smap.get(id(at))
            if sorts and node is not None and \
                    must_pass(self.g, self.g.entry.id, node.id, sorts):
                return True
        return False

    def defs(self, name):
        out = []
        for n in walk(self.f.node, nested=True):
            if isinstance(n, ast.Assign) and any(
                    isinstance(t, ast.Name) and t.id == name
                    for t in n.targets):
                out.append(n.value)
            elif isinstance(n, ast.AnnAssign) and n.value is not None and \
                    isinstance(n.target, ast.Name) and n.target.id == name:
                out.append(n.value)
        return out

    @staticmethod
    def join(kinds):
        kinds = set(kinds)
        for k in ('adjacent', 'perline', 'keyed'):
            if k in kinds:
                return k
        raise Unrecognised('nothing to classify')

    def enclosing_loop(self, call):
        """innermost For whose body contains `call`"""
        best = None
        for n in walk(self.f.node, nested=True):
            if isinstance(n, ast.For) and any(x is call for s in n.body
                                              for x in walk(s, nested=True)):
                if best is None or any(x is n for x in walk(best,
                                                            nested=True)):
                    best = n
        return best

    def classify(self, e):
        if isinstance(e, (ast.Dict, ast.DictComp, ast.SetComp, ast.Set)):
            return 'keyed'
        if isinstance(e, (ast.ListComp, ast.GeneratorExp)):
            if len(e.generators) != 1:
                raise Unrecognised(short(e))
            return self.classify(e.generators[0].iter)
        if isinstance(e, ast.Call):
            cn = call_name(e)
            base = cn.split('.')[-1]
            if base == 'groupby' and e.args:
                if kwarg(e, 'key', 1) is not None:
                    raise Unrecognised('groupby with a key function: %s'
                                       % short(e))
                s = e.args[0]
                if self.sorted_seq(s, e):
                    return 'keyed'
                k = self.classify(s)
                return 'keyed' if k == 'keyed' else 'adjacent'
            if cn in KEYED_CTORS:
                return 'keyed'
            if cn in PASS_THROUGH and e.args:
                return self.classify(e.args[0])
            if isinstance(e.func, ast.Attribute):
                if e.func.attr in DICT_VIEWS:
                    return self.classify(e.func.value)
                if e.func.attr in LINE_SPLIT:
                    return 'perline'
            raise Unrecognised(short(e))
        if isinstance(e, ast.Name):
            if e.id in self.handles:
                return 'perline'
            if e.id in self.busy:
                raise Unrecognised('recursive definition of %s' % e.id)
            self.busy.add(e.id)
            try:
                defs = self.defs(e.id)
                if not defs:
                    raise Unrecognised('%s has no definition' % e.id)
                kinds = []
                grows = False
                for v in defs:
                    empty_list = isinstance(v, ast.List) and not v.elts or \
                        isinstance(v, ast.Call) and call_name(v) == 'list' \
                        and not v.args
                    if empty_list:
                        grows = True
                        continue
                    kinds.append(self.classify(v))
                if grows:
                    fed = False
                    for c in calls_in(self.f.node, nested=True):
                        if not isinstance(c.func, ast.Attribute) or \
                                unparse(c.func.value) != e.id:
                            continue
                        if c.func.attr in ('append', 'insert'):
                            loop = self.enclosing_loop(c)
                            if loop is None:
                                raise Unrecognised('%s outside of a loop'
                                                   % short(c))
                            kinds.append(self.classify(loop.iter))
                            fed = True
                        elif c.func.attr == 'extend' and c.args:
                            kinds.append(self.classify(c.args[0]))
                            fed = True
                    for n in walk(self.f.node, nested=True):
                        if isinstance(n, ast.AugAssign) and \
                                isinstance(n.target, ast.Name) and \
                                n.target.id == e.id:
                            kinds.append(self.classify(n.value))
                            fed = True
                    if not fed:
                        raise Unrecognised('list %s is never filled' % e.id)
                return self.join(kinds)
            finally:
                self.busy.discard(e.id)
        if isinstance(e, ast.Subscript) and isinstance(e.slice, ast.Slice):
            return self.classify(e.value)
        raise Unrecognised(short(e))


def r18_5(prog, rep, table, rid='R18.5'):
    rep.rule(rid, '_parse_nodefile returns one tuple per distinct node name: '
             'the returned list is drawn from a collection keyed by the line '
             '(dict / Counter / set / groupby over a sorted sequence), not '
             'from the lines themselves', minimum=1)
    base = prog.cls(*RM)
    funcs = {}
    for K in [base] + sorted(table.values(), key=lambda k: k.where):
        f = prog.find_method(K, '_parse_nodefile')
        if f is not None:
            funcs[f.where] = f
    if not funcs:
        raise AnalysisError('anchor ResourceManager._parse_nodefile not found')
    for where, f in sorted(funcs.items()):
        rep.saw(f)
        u = Uniq(f)
        n = 0
        for r in walk(f.node):
            if not isinstance(r, ast.Return) or r.value is None:
                continue
            v = r.value
            if isinstance(v, (ast.List, ast.Tuple)) and not v.elts or \
                    isinstance(v, ast.Constant) and v.value is None:
                continue                       # "file not parsable"
            n += 1
            try:
                kind = u.classify(v)
            except Unrecognised as e:
                raise AnalysisError('UNRECOGNISED-IDIOM %s: cannot tell how '
                                    '`%s` is drawn from the node file (%s)'
                                    % (f.where, short(v), e))
            rep.check(kind == 'keyed', rid, f, '`%s` is drawn from a '
                      'collection keyed by node name' % short(v, 60),
                      construct='unique:%s' % kind,
                      message='%s builds the list it returns %s: a host whose '
                      'lines are not adjacent in the node file yields several '
                      'entries (each with a too small slot count), so the '
                      'pilot offers the same node more than once'
                      % (f.qual, 'with itertools.groupby over the unsorted '
                         'lines, which merges only adjacent equal lines'
                         if kind == 'adjacent' else 'with one element per '
                         'line of the file, without merging repeated host '
                         'names'), loc=f.loc(r),
                      history='round-robin node file n1 n2 n3 n1 n2 n3 (one '
                      'name per line): 6 one-slot entries with duplicate '
                      'names instead of [(n1, 2), (n2, 2), (n3, 2)]; Torque '
                      'detects cores_per_node=1 and lists every host twice')
        if not n:
            raise AnalysisError('UNRECOGNISED-IDIOM %s returns no list'
                                % f.where)


# ------------------------------------------------------------------------------
# R18.6   blocked cores / GPUs are marked on every node of the complete list
#
FULL_ITER  = {'list', 'tuple', 'sorted', 'reversed', 'iter'}
NARROWING  = {'filter', 'islice', 'itertools.islice', 'takewhile',
              'itertools.takewhile', 'dropwhile', 'itertools.dropwhile',
              'compress', 'itertools.compress', 'filterfalse',
              'itertools.filterfalse'}


def _empty_list(v):
    return isinstance(v, ast.List) and not v.elts or \
        isinstance(v, ast.Call) and call_name(v) == 'list' and \
        not v.args and not v.keywords


def _full_slice(sl):
    """[:] [0:] [::1] [::-1]: every element"""
    def const(x, vals):
        return x is None or isinstance(x, ast.Constant) and x.value in vals
    if not const(sl.step, (None, 1, -1)):
        return False
    if isinstance(sl.step, ast.Constant) and sl.step.value == -1:
        return sl.lower is None and sl.upper is None
    return const(sl.lower, (None, 0)) and const(sl.upper, (None,))


def _is_static(f):
    return any(isinstance(d, ast.Name) and d.id == 'staticmethod'
               for d in f.node.decorator_list)


def bind_args(callee, call):
    """{parameter name of callee: argument expression of call}"""
    a = callee.node.args
    pos = [x.arg for x in a.posonlyargs + a.args]
    if callee.cls is not None and not _is_static(callee) and pos and \
            isinstance(call.func, ast.Attribute):
        pos = pos[1:]                              # self / cls
    out = {}
    for p, v in zip(pos, call.args):
        if isinstance(v, ast.Starred):
            break
        out[p] = v
    names = set(pos) | {x.arg for x in a.kwonlyargs}
    for k in call.keywords:
        if k.arg in names:
            out[k.arg] = k.value
    return out


class FnCtx:
    """a function in which the marking may live: _init_from_scratch itself
    (caller is None) or a method it hands the RMInfo to"""

    def __init__(self, f, caller=None, call=None, callnode=None):
        self.f = f
        self.g = cfg_of(f)
        self.smap = I.stmt_node_map(self.g)
        self.caller = caller
        self.call = call
        self.callnode = callnode
        self.args = bind_args(f, call) if call is not None else {}

    def origin(self, expr, at, depth=0):
        """follow plain names through their (single) reaching definition and,
        for a parameter of a helper, through the argument of the call in the
        caller; -> (ctx, expr, at) of the first expression that is not such a
        name, or None when the chain cannot be followed"""
        ctx = self
        while isinstance(expr, ast.Name) and depth < 12:
            depth += 1
            from ..flow import reaching_defs
            defs = reaching_defs(ctx.g, expr.id, at)
            if len(defs) == 1 and defs[0][1] is not None:
                at, expr = defs[0][0].id, defs[0][1]
            elif not defs and expr.id in ctx.args and ctx.caller is not None:
                expr, at = ctx.args[expr.id], ctx.callnode.id
                ctx = ctx.caller
            else:
                return None
        return ctx, expr, at


class Domain:
    """which part of <rm_info>.node_list an expression ranges over:
    ('whole', root name) | ('partial', why); raises Unrecognised"""

    def __init__(self, ctx):
        self.ctx = ctx
        self.f, self.g, self.smap = ctx.f, ctx.g, ctx.smap
        self.busy = set()

    def classify(self, e, at):
        from ..flow import reaching_defs
        if _is_node_list(e):
            if isinstance(e.value, ast.Name):
                return ('whole', e.value.id)
            raise Unrecognised('node list of `%s`' % short(e.value))
        if isinstance(e, ast.Name):
            key = (e.id, at)
            if key in self.busy:
                raise Unrecognised('recursive definition of %s' % e.id)
            self.busy.add(key)
            try:
                defs = reaching_defs(self.g, e.id, at)
                if not defs:
                    raise Unrecognised('`%s` is not a local of %s'
                                       % (e.id, self.f.qual))
                res = []
                for dn, v in defs:
                    if v is None:
                        raise Unrecognised('`%s` bound by `%s`'
                                           % (e.id, short(dn.ast, 50)))
                    if _empty_list(v):
                        res.append(self.grown(e.id, dn))
                    else:
                        res.append(self.classify(v, dn.id))
                return self.join(res)
            finally:
                self.busy.discard(key)
        if isinstance(e, ast.Subscript) and isinstance(e.slice, ast.Slice):
            inner = self.classify(e.value, at)
            if inner[0] == 'partial' or _full_slice(e.slice):
                return inner
            return ('partial', 'the slice `%s`' % short(e, 70))
        if isinstance(e, ast.Call):
            cn = call_name(e)
            if cn in FULL_ITER and e.args:
                return self.classify(e.args[0], at)
            if cn.endswith('.copy') and not e.args:
                return self.classify(e.func.value, at)
            if cn in ('copy.copy', 'copy.deepcopy') and e.args:
                return self.classify(e.args[0], at)
            if cn in NARROWING and e.args:
                seq = e.args[0] if cn.endswith('islice') else e.args[-1]
                inner = self.classify(seq, at)
                if inner[0] == 'partial':
                    return inner
                return ('partial', '`%s`' % short(e, 70))
            raise Unrecognised('`%s`' % short(e, 70))
        if isinstance(e, (ast.ListComp, ast.GeneratorExp)):
            if len(e.generators) != 1:
                raise Unrecognised('`%s`' % short(e, 70))
            gen = e.generators[0]
            if not (isinstance(gen.target, ast.Name) and
                    isinstance(e.elt, ast.Name) and
                    e.elt.id == gen.target.id):
                raise Unrecognised('`%s`' % short(e, 70))
            inner = self.classify(gen.iter, at)
            if inner[0] == 'partial' or not gen.ifs:
                return inner
            if any(gen.target.id in names_in_expr(c) for c in gen.ifs):
                return ('partial', 'the filter `%s`'
                        % ' and '.join(short(c, 50) for c in gen.ifs))
            raise Unrecognised('`%s`' % short(e, 70))
        raise Unrecognised('`%s`' % short(e, 70))

    @staticmethod
    def join(res):
        for r in res:
            if r[0] == 'partial':
                return r
        roots = {r[1] for r in res}
        if len(roots) != 1:
            raise Unrecognised('several node lists: %s' % sorted(roots))
        return res[0]

    def grown(self, name, defnode):
        """a list started empty and filled element by element in a loop"""
        res = []
        for c in calls_in(self.f.node):
            if not isinstance(c.func, ast.Attribute) or \
                    not isinstance(c.func.value, ast.Name) or \
                    c.func.value.id != name or id(c) not in self.smap:
                continue
            an = self.smap[id(c)]
            if c.func.attr == 'extend' and c.args:
                res.append(self.classify(c.args[0], an.id))
                continue
            if c.func.attr != 'append' or not c.args:
                if c.func.attr in ('insert', 'remove', 'pop', 'clear'):
                    raise Unrecognised('`%s`' % short(c, 60))
                continue
            x = c.args[0]
            head = None
            for h in reversed(an.loops):
                hn = self.g.nodes[h]
                if hn.kind == 'for' and isinstance(x, ast.Name) and \
                        isinstance(hn.ast.target, ast.Name) and \
                        hn.ast.target.id == x.id:
                    head = hn
                    break
            if head is None:
                raise Unrecognised('`%s` does not append the loop element'
                                   % short(c, 60))
            inner = self.classify(head.ast.iter, head.id)
            if inner[0] == 'partial':
                res.append(inner)
                continue
            why = per_element_skip(self.g, head.id, an, {x.id})
            if why:
                res.append(('partial', 'the loop `%s` which %s'
                            % (short(head.ast.target) + ' in ' +
                               short(head.ast.iter, 50), why)))
            else:
                res.append(inner)
        for n in walk(self.f.node):
            if isinstance(n, ast.AugAssign) and \
                    isinstance(n.target, ast.Name) and n.target.id == name \
                    and id(n) in self.smap:
                res.append(self.classify(n.value, self.smap[id(n)].id))
        if not res:
            raise Unrecognised('list `%s` is never filled' % name)
        return self.join(res)


def names_in_expr(e):
    return {n.id for n in walk(e, nested=True) if isinstance(n, ast.Name)}


def per_element_skip(g, head, site, elt_names):
    """does an iteration of the loop `head` exist which leaves `site` (a cfg
    node of the body) out for a reason that depends on the element alone, or
    does the loop end before its sequence does?  -> description | None"""
    from ..flow import guards
    body = g.loop_body[head]
    # names computed from the element inside the body (one step)
    derived = set(elt_names)
    for nid in body:
        n = g.nodes[nid]
        if n.kind == 'stmt' and isinstance(n.ast, ast.Assign) and \
                names_in_expr(n.ast.value) & set(elt_names):
            for t in n.ast.targets:
                derived |= set(stores_of(t))
    # names bound by loops nested between head and the site: a test on them
    # concerns the pair (element, inner item), not the element
    inner = set()
    for h in site.loops:
        if h != head and h in body and g.nodes[h].kind == 'for':
            inner |= set(stores_of(g.nodes[h].ast.target))
    derived -= inner
    # (a) the loop is left early
    for nid in body:
        for e in g.succ[nid]:
            if e.label == 'exc' or e.dst in body or e.dst == head:
                continue
            if g.exit.id in g.reachable(e.dst):
                return 'can end before the last element (`%s`)' \
                    % _leave_text(g, nid)
    # (b) a test on the element decides whether the site is reached
    start = loop_start(g, head)
    for tid, lab in guards(g, site.id, start=start, within=body):
        t = g.nodes[tid]
        names = names_in_expr(t.ast)
        if not names & derived or names & inner:
            continue
        other = [e.dst for e in g.succ[tid]
                 if e.label in 'TF' and e.label != lab]
        if other and (g.exit.id in g.reachable(other)):
            return 'skips elements for which `%s` is %s' \
                % (short(t.ast, 60), 'false' if lab == 'T' else 'true')
    return None


def loop_start(g, head):
    for e in g.succ[head]:
        if e.enter == head:
            return e.dst
    raise AnalysisError('loop without body')


def _leave_text(g, nid):
    n = g.nodes[nid]
    return short(n.ast, 40) if n.ast is not None else n.kind


def stores_of(t):
    from ..model import stores_in_target
    return stores_in_target(t)


def scratch_contexts(prog, rep):
    """-> (rm var, [FnCtx]): ResourceManager._init_from_scratch and the
    methods it hands its RMInfo to (init_from_scratch of the RM excluded)"""
    s = prog.method(RM[0], RM[1], '_init_from_scratch')
    rep.saw(s)
    top = FnCtx(s)
    fargs = {c.args[0].id for c in calls_in(s.node)
             if call_name(c) == 'self._filter_nodes' and c.args and
             isinstance(c.args[0], ast.Name)}
    if len(fargs) != 1:
        raise AnalysisError('UNRECOGNISED-IDIOM %s: the RMInfo handed to '
                            'self._filter_nodes is not one plain name (%s)'
                            % (s.where, sorted(fargs)))
    var = fargs.pop()
    out = [top]
    for c in calls_in(s.node):
        if not any(isinstance(a, ast.Name) and a.id == var
                   for a in list(c.args) + [k.value for k in c.keywords]):
            continue
        if call_name(c).endswith('.init_from_scratch') or id(c) not in top.smap:
            continue
        callee = prog.resolve_call(s, c)
        if callee is None or callee is s:
            continue
        rep.saw(callee)
        out.append(FnCtx(callee, top, c, top.smap[id(c)]))
    return var, out


def _blocked_key(e):
    """'blocked_X' when e reads the configured list: <cfg>.get('blocked_X'..),
    <cfg>['blocked_X'], <cfg>.blocked_X"""
    name = None
    if isinstance(e, ast.Call) and isinstance(e.func, ast.Attribute) and \
            e.func.attr == 'get' and e.args and \
            isinstance(e.args[0], ast.Constant):
        name = e.args[0].value
    elif isinstance(e, ast.Subscript) and isinstance(e.slice, ast.Constant):
        name = e.slice.value
    elif isinstance(e, ast.Attribute):
        name = e.attr
    if isinstance(name, str) and name.startswith('blocked_'):
        return name
    return None


def truth(ctx, e, at, val, depth=0):
    """three-valued truth of expression e at cfg node `at` of ctx when the
    configured lists are (non-)empty as `val` {'blocked_X': bool} says:
    True / False / None (not known)"""
    if e is None or depth > 10:
        return None
    if isinstance(e, ast.Constant):
        return bool(e.value)
    if isinstance(e, ast.Name):
        o = ctx.origin(e, at)
        if o is None or isinstance(o[1], ast.Name):
            return None
        return truth(o[0], o[1], o[2], val, depth + 1)
    k = _blocked_key(e)
    if k is not None:
        return val.get(k)
    if isinstance(e, ast.UnaryOp) and isinstance(e.op, ast.Not):
        t = truth(ctx, e.operand, at, val, depth + 1)
        return None if t is None else not t
    if isinstance(e, ast.BoolOp):
        ts = [truth(ctx, v, at, val, depth + 1) for v in e.values]
        if isinstance(e.op, ast.And):
            return False if any(t is False for t in ts) else \
                True if all(t is True for t in ts) else None
        return True if any(t is True for t in ts) else \
            False if all(t is False for t in ts) else None
    if isinstance(e, ast.Call) and call_name(e) in ('bool', 'len', 'list',
                                                    'tuple', 'set', 'sorted') \
            and len(e.args) == 1 and not e.keywords:
        return truth(ctx, e.args[0], at, val, depth + 1)
    if isinstance(e, ast.Call) and call_name(e) in ('any', 'all') and \
            len(e.args) == 1 and isinstance(e.args[0], (ast.List, ast.Tuple)):
        ts = [truth(ctx, v, at, val, depth + 1) for v in e.args[0].elts]
        if call_name(e) == 'all':
            return False if any(t is False for t in ts) else \
                True if all(t is True for t in ts) else None
        return True if any(t is True for t in ts) else \
            False if all(t is False for t in ts) else None
    if isinstance(e, ast.Compare) and len(e.ops) == 1:
        l, r, op = e.left, e.comparators[0], e.ops[0]
        if isinstance(l, ast.Call) and call_name(l) == 'len' and l.args and \
                isinstance(r, ast.Constant) and isinstance(r.value, int):
            t = truth(ctx, l.args[0], at, val, depth + 1)
            if t is None:
                return None
            c = r.value                    # len is 0 (t False) or >= 1 (t True)
            if isinstance(op, (ast.Gt, ast.NotEq)) and c == 0 or \
                    isinstance(op, ast.GtE) and c == 1:
                return t
            if isinstance(op, (ast.Eq, ast.LtE)) and c == 0 or \
                    isinstance(op, ast.Lt) and c == 1:
                return not t
            return None
        if isinstance(op, (ast.Eq, ast.NotEq)) and (
                isinstance(r, (ast.List, ast.Tuple)) and not r.elts):
            t = truth(ctx, l, at, val, depth + 1)
            if t is None:
                return None
            return (not t) if isinstance(op, ast.Eq) else t
    if isinstance(e, ast.BinOp) and isinstance(e.op, ast.Add):
        # concatenation / sum of lengths: empty iff both are
        ts = [truth(ctx, v, at, val, depth + 1) for v in (e.left, e.right)]
        return True if any(t is True for t in ts) else \
            False if all(t is False for t in ts) else None
    return None


def marking_reached(ctx, site, val):
    """can `site` (cfg node of ctx) be reached from the entry of ctx.f when
    the tests whose outcome `val` decides only take that outcome?"""
    g = ctx.g
    skip = []
    for n in g.nodes:
        if n.kind != 'test':
            continue
        t = truth(ctx, n.ast, n.id, val)
        if t is True:
            skip.append((n.id, 'F'))
        elif t is False:
            skip.append((n.id, 'T'))
    for n in g.nodes:
        # `for idx in <configured list>`: the body only runs for a non-empty
        # list
        if n.kind == 'for' and truth(ctx, n.ast.iter, n.id, val) is False:
            skip.append((n.id, 'iter'))
    return site.id in g.reachable(g.entry.id, skip_edges=skip)


def _val_text(val):
    return ', '.join('%s is %s' % (k, 'not empty' if v else 'empty')
                     for k, v in sorted(val.items()))


def _guard_text(ctx, site, top):
    from ..flow import guards
    out = []
    for c, n in ((ctx, site),) + (((top, ctx.callnode),)
                                  if ctx is not top else ()):
        for tid, lab in guards(c.g, n.id):
            a = c.g.nodes[tid].ast
            out.append('`%s` %s' % (short(a, 40), 'true' if lab == 'T'
                                    else 'false'))
    return ', '.join(out) or 'none dominates it alone'


def r18_6(prog, rep, rid='R18.6', gid='R18.9'):
    rep.rule(rid, 'blocked cores and GPUs are marked DOWN on every node of the '
             'complete rm_info.node_list: the marking loop ranges over the '
             'whole list (no slice, filter or early exit narrower than what '
             '_filter_nodes may keep) and over the configured blocked list of '
             'the same kind', minimum=4)
    rep.rule(gid, 'the marking of the blocked cores (GPUs) is reached whenever '
             'system_architecture.blocked_cores (blocked_gpus) is not empty, '
             'whether or not the list of the other kind is: the guards in '
             'front of it, evaluated for empty / non-empty lists, let it pass',
             minimum=4)
    okind = {'cores': 'gpus', 'gpus': 'cores'}
    free, busy, down = c01.consts(prog)
    var, ctxs = scratch_contexts(prog, rep)
    top = ctxs[0]
    init_calls = [top.smap[id(c)].id for c in calls_in(top.f.node)
                  if call_name(c) == 'self.init_from_scratch' and
                  id(c) in top.smap]
    if not init_calls:
        raise AnalysisError('UNRECOGNISED-IDIOM %s: no call of '
                            'self.init_from_scratch' % top.f.where)
    hist = ('Slurm without cores_per_node in the config (requested_nodes is '
            '0 until it is derived from requested_cores) or a pilot with '
            'backup_nodes=1 whose second node fails the ssh check: '
            '_filter_nodes keeps a node the marking did not visit, its '
            'blocked cores/GPUs are offered FREE')

    for kind, what in (('cores', 'core'), ('gpus', 'GPU')):
        key = 'blocked_' + kind
        sites, other = [], []
        for ctx in ctxs:
            f = ctx.f
            for k, target, stmt in I.stores(f.node):
                if "['%s']" % kind not in unparse(target) and not (
                        isinstance(target, ast.Subscript) and
                        isinstance(target.value, ast.Name)):
                    continue
                vec = target.value if isinstance(target, ast.Subscript) \
                    else None
                if isinstance(vec, ast.Name):
                    a = _local_alias(f, vec.id)
                    vec = a if a is not None else vec
                shaped = k == 'assign' and isinstance(vec, ast.Subscript) and \
                    isinstance(vec.slice, ast.Constant) and \
                    vec.slice.value == kind and id(stmt) in ctx.smap
                if shaped:
                    sites.append((ctx, target, vec.value, stmt))
                elif "['%s']" % kind in unparse(target):
                    other.append((ctx, stmt))
        if not sites:
            if other:
                raise AnalysisError('UNRECOGNISED-IDIOM %s: the %s vectors '
                                    'are written by `%s`, not by '
                                    "<node>['%s'][<idx>] = rpc.DOWN"
                                    % (other[0][0].f.where, what,
                                       short(other[0][1], 60), kind))
            deep = _deep_writers(prog, top.f, kind)
            if deep is not None:
                raise AnalysisError('UNRECOGNISED-IDIOM %s: the %s vectors are '
                                    'written in %s, which is not handed the '
                                    'RMInfo by %s' % (top.f.where, what,
                                                      deep.where, top.f.qual))
            rep.bad(rid, top.f, 'mark:%s' % kind, 'neither %s nor a method it '
                    "hands the RMInfo to writes into the node['%s'] vectors: "
                    'the %ss listed in system_architecture.%s stay FREE on '
                    'every offered node' % (top.f.qual, kind, what, key),
                    top.f.loc(), history='platform config with %s=[0]: index '
                    '0 of every node is handed to the first task' % key)
            continue
        marked = False
        for ctx, target, nodex, stmt in sites:
            f, g = ctx.f, ctx.g
            val = prog.fold(f.module, stmt.value, f.cls)
            if val is UNKNOWN:
                raise AnalysisError('UNRECOGNISED-IDIOM %s: value of `%s`'
                                    % (f.where, short(stmt, 60)))
            if not (val == down and type(val) == type(down)):
                if not (val == free and type(val) == type(free)):
                    continue
                rep.bad(rid, f, stmt, '%s writes rpc.FREE (`%s`) where the '
                        'blocked %ss are to be marked unusable'
                        % (f.qual, short(stmt, 60), what), f.loc(stmt),
                        history='platform config with %s=[0]' % key)
            marked = True
            sn = ctx.smap[id(stmt)]
            dom = Domain(ctx)
            try:
                head, res = node_domain(ctx, dom, sn, nodex)
                skip = None
                if res[0] == 'whole':
                    skip = per_element_skip(g, head.id, sn, elt_names(
                        head, nodex))
            except Unrecognised as e:
                raise AnalysisError('UNRECOGNISED-IDIOM %s: cannot tell which '
                                    'nodes `%s` visits (%s)'
                                    % (f.where, short(stmt, 50), e))
            if res[0] == 'whole':
                o = ctx.origin(ast.Name(id=res[1], ctx=ast.Load()), head.id)
                root = o[1] if o is not None else None
                if not (res[1] == var and ctx is top or
                        isinstance(root, ast.Name) and root.id == var and
                        o[0] is top or
                        isinstance(root, ast.Call) and o[0] is top and
                        call_name(root) == 'self.init_from_scratch'):
                    raise AnalysisError('UNRECOGNISED-IDIOM %s: `%s.node_list`'
                                        ' is not the list of the RMInfo `%s` '
                                        'which is filtered and returned'
                                        % (f.where, res[1], var))
            whole = res[0] == 'whole' and not skip
            why = res[1] if res[0] == 'partial' else \
                'the loop over it %s' % skip if skip else ''
            rep.check(whole, rid, f, 'blocked %ss: `%s` visits every node of '
                      '%s.node_list' % (what, short(stmt, 40), var),
                      construct='domain:%s' % kind,
                      message='%s marks the blocked %ss (`%s`) only on the '
                      'nodes selected by %s, not on the complete '
                      'rm_info.node_list.  _filter_nodes decides later which '
                      'nodes are offered (it keeps any reachable node when '
                      'backup nodes exist, and requested_nodes may still be 0 '
                      'here): a node outside of that selection is offered '
                      'with its blocked %ss FREE'
                      % (f.qual, what, short(stmt, 50), why, what),
                      loc=f.loc(head.ast),
                      history=res[2] if len(res) > 2 else hist)
            # the marking happens once the RM has built the list
            cn = sn if ctx is top else ctx.callnode
            after = must_pass(top.g, top.g.entry.id, cn.id, init_calls)
            rep.check(after, rid, f, 'blocked %ss are marked after '
                      'self.init_from_scratch() built the list' % what,
                      construct='order:%s' % kind,
                      message='%s marks the blocked %ss on a path which has '
                      'not yet run self.init_from_scratch(): the node list is '
                      'still empty, nothing is marked' % (f.qual, what),
                      loc=f.loc(stmt), history='any platform with %s' % key)
            # guard strength: the marking runs whenever the configured list
            # of its kind is non-empty, whatever the other list holds
            for other in (False, True):
                val = {key: True, 'blocked_' + okind[kind]: other}
                ok = marking_reached(ctx, sn, val) and (
                    ctx is top or marking_reached(top, ctx.callnode, val))
                rep.check(ok, gid, f, 'blocked %ss are marked when %s'
                          % (what, _val_text(val)),
                          construct='guard:%s:%s' % (kind, 'both' if other
                                                     else 'alone'),
                          message='%s does not reach `%s` when %s: the tests '
                          'which guard the marking (%s) let it pass only for '
                          'other configurations, so the %ss listed in '
                          'system_architecture.%s stay FREE on every offered '
                          'node and are handed to tasks'
                          % (f.qual, short(stmt, 50), _val_text(val),
                             _guard_text(ctx, sn, top), what, key),
                          loc=f.loc(stmt),
                          history='platform config with %s (core '
                          'specialisation without blocked GPUs, or the '
                          'reverse): nothing is marked DOWN' % _val_text(val))
            # the index ranges over the configured list of the same kind
            bad = index_domain(ctx, sn, target.slice, key)
            if bad:
                rep.bad(rid, f, 'index:%s' % kind, '%s marks the %ss at the '
                        'indices of %s, not of the complete configured %s: '
                        'blocked %ss stay FREE' % (f.qual, what, bad, key,
                                                   what), f.loc(stmt),
                        history='platform config with blocked_cores=[0, 1] '
                        'and blocked_gpus=[3]')
        if not marked:
            raise AnalysisError('UNRECOGNISED-IDIOM %s: no store of rpc.DOWN '
                                "into node['%s']" % (top.f.where, kind))


def _deep_writers(prog, s, kind, depth=3):
    """a function reachable from s through resolvable calls (the RM's own
    init_from_scratch excluded) which writes into a ['<kind>'] vector"""
    seen, todo = {s.where}, [(s, 0)]
    while todo:
        f, d = todo.pop()
        if f is not s:
            for k, target, stmt in I.stores(f.node, nested=True):
                if "['%s']" % kind in unparse(target):
                    return f
        if d >= depth:
            continue
        for c in calls_in(f.node, nested=True):
            if call_name(c).endswith('.init_from_scratch'):
                continue
            try:
                callee = prog.resolve_call(f, c)
            except AnalysisError:
                callee = None
            if callee is not None and callee.where not in seen:
                seen.add(callee.where)
                todo.append((callee, d + 1))
    return None


def elt_names(head, nodex):
    """names which stand for the node (or its position) in the loop `head`"""
    out = set(stores_of(head.ast.target))
    if isinstance(nodex, ast.Name):
        out.add(nodex.id)
    return out


def node_domain(ctx, dom, sn, nodex):
    """the loop which makes `nodex` range over nodes and what it ranges over:
    -> (for-head cfg node, ('whole', root) | ('partial', why))"""
    from ..flow import reaching_defs
    g = ctx.g
    if isinstance(nodex, ast.Name):
        for h in reversed(sn.loops):
            hn = g.nodes[h]
            if hn.kind != 'for' or nodex.id not in stores_of(hn.ast.target):
                continue
            t, it = hn.ast.target, hn.ast.iter
            if isinstance(t, ast.Name):
                return hn, dom.classify(it, hn.id)
            if isinstance(it, ast.Call) and call_name(it) == 'enumerate' and \
                    it.args and isinstance(t, ast.Tuple) and \
                    len(t.elts) == 2 and isinstance(t.elts[1], ast.Name) and \
                    t.elts[1].id == nodex.id:
                return hn, dom.classify(it.args[0], hn.id)
            raise Unrecognised('loop `%s in %s`' % (short(t), short(it, 50)))
        defs = reaching_defs(g, nodex.id, sn.id)
        if len(defs) == 1 and defs[0][1] is not None and \
                isinstance(defs[0][1], (ast.Subscript, ast.Name)):
            return node_domain(ctx, dom, defs[0][0], defs[0][1])
        # the variable of a loop which is over when the site runs: the site
        # sees the element the loop stopped at, once, not every element
        if defs and all(dn.kind == 'for' and dn.id not in sn.loops and
                        nodex.id in stores_of(dn.ast.target)
                        for dn, v in defs):
            hn = defs[0][0]
            return hn, ('partial', 'the last value the finished loop `for %s '
                        'in %s` left in `%s` (the statement is outside of '
                        'that loop and runs once, for one node)'
                        % (short(hn.ast.target), short(hn.ast.iter, 50),
                           nodex.id),
                        'a pilot with more than one node and a non-empty '
                        'configured blocked list: only the last node of the '
                        'list gets the entries marked DOWN, every other node '
                        'offers them FREE')
        raise Unrecognised('`%s` is not a loop element' % nodex.id)
    if isinstance(nodex, ast.Subscript) and \
            isinstance(nodex.slice, ast.Name):
        i = nodex.slice.id
        for h in reversed(sn.loops):
            hn = g.nodes[h]
            if hn.kind != 'for' or i not in stores_of(hn.ast.target):
                continue
            seq = dom.classify(nodex.value, hn.id)
            it = hn.ast.iter
            if seq[0] == 'partial':
                return hn, seq
            if isinstance(hn.ast.target, ast.Name) and \
                    isinstance(it, ast.Call) and call_name(it) == 'range':
                stop = it.args[0] if len(it.args) == 1 else \
                    it.args[1] if len(it.args) == 2 and \
                    isinstance(it.args[0], ast.Constant) and \
                    it.args[0].value == 0 else None
                o = ctx.origin(stop, hn.id) if stop is not None else None
                if o is not None and o[0] is ctx and \
                        isinstance(o[1], ast.Call) and \
                        call_name(o[1]) == 'len' and o[1].args:
                    ln = dom.classify(o[1].args[0], o[2])
                    if ln[0] == 'partial' or ln == seq:
                        return hn, ln
                    raise Unrecognised('`%s`' % short(it, 50))
                if stop is not None and o is not None:
                    return hn, ('partial', 'the index range `%s`'
                                % short(it, 60))
            raise Unrecognised('loop `%s in %s`' % (short(hn.ast.target),
                                                   short(it, 50)))
    raise Unrecognised('`%s`' % short(nodex, 50))


def index_domain(ctx, sn, idx, key):
    """None when the index of the DOWN store ranges over the configured list
    `key` (or when that cannot be told); else what it ranges over"""
    if not isinstance(idx, ast.Name):
        return None
    g = ctx.g
    for h in reversed(sn.loops):
        hn = g.nodes[h]
        if hn.kind != 'for' or not isinstance(hn.ast.target, ast.Name) or \
                hn.ast.target.id != idx.id:
            continue
        it = hn.ast.iter
        narrowed = None
        while True:
            if isinstance(it, ast.Call) and call_name(it) in FULL_ITER | \
                    {'set'} and it.args:
                it = it.args[0]
            elif isinstance(it, ast.Subscript) and \
                    isinstance(it.slice, ast.Slice):
                if not _full_slice(it.slice):
                    narrowed = narrowed or short(it, 50)
                it = it.value
            else:
                break
        o = ctx.origin(it, hn.id)
        if o is None:
            return None
        src = o[1]
        name = None
        if isinstance(src, ast.Call) and \
                isinstance(src.func, ast.Attribute) and \
                src.func.attr == 'get' and src.args and \
                isinstance(src.args[0], ast.Constant):
            name = src.args[0].value
        elif isinstance(src, ast.Subscript) and \
                isinstance(src.slice, ast.Constant):
            name = src.slice.value
        elif isinstance(src, ast.Attribute):
            name = src.attr
        if not isinstance(name, str) or not name.startswith('blocked_'):
            return None
        if name != key:
            return 'the configured %s' % name
        if narrowed:
            return '`%s`' % narrowed
        return None
    return None


# ------------------------------------------------------------------------------
# R18.7   a slot-count filter sees the slot counts of the node file
#
# _parse_nodefile(fname, cpn, smt) returns [(name, count * smt)] where count
# is the number of lines of that host - unless `cpn` is true, then count is
# cpn for EVERY host.  A test on element 1 of these tuples which decides
# whether a node stays in the list (LSF: the 1-slot login/batch pseudo nodes)
# is therefore the same for all hosts as soon as cpn is passed: it cannot
# tell a pseudo node from a compute node.
#
COUNT_IDX = (1, -1)


def _count_reads(e, elt, tainted):
    """does expression e read the slot count of the node tuple `elt` (a name)
    or one of the `tainted` names?"""
    for n in walk(e, nested=True):
        if isinstance(n, ast.Name) and n.id in tainted:
            return True
        if isinstance(n, ast.Subscript) and isinstance(n.value, ast.Name) and \
                n.value.id == elt and isinstance(n.slice, ast.Constant) and \
                n.slice.value in COUNT_IDX:
            return True
    return False


class Prov:
    """backward from the node tuples given to _get_node_list to the
    _parse_nodefile calls they come from, noting on the way whether membership
    was decided by a test on the slot count: hits = [(call, test | None)]"""

    def __init__(self, prog, f, K):
        self.prog, self.f, self.K = prog, f, K
        self.g = cfg_of(f)
        self.smap = I.stmt_node_map(self.g)
        self.hits = []
        self.busy = set()
        self.replaced = []       # (comprehension, test): counts replaced by
                                 # one value for all hosts before the test
        self.unknown = set()     # locals computed from the node tuple by a
                                 # function which cannot be looked into

    # ----------------------------------------------------------------------
    def callee_reads_count(self, call, elt, in_test=True):
        """`elt` is handed to a function of the package which looks at its
        slot count"""
        passed = [i for i, a in enumerate(call.args)
                  if isinstance(a, ast.Name) and a.id == elt]
        kw = [k.arg for k in call.keywords
              if isinstance(k.value, ast.Name) and k.value.id == elt]
        if not passed and not kw:
            return False
        callee = self.prog.resolve_call(self.f, call, self.K)
        if callee is None:
            if isinstance(call.func, ast.Name) and call.func.id in (
                    'len', 'str', 'repr', 'bool', 'isinstance', 'print'):
                return False
            if not in_test:
                return None
            raise Unrecognised('`%s` receives the node tuple'
                               % short(call, 60))
        params = [p for p, v in bind_args(callee, call).items()
                  if isinstance(v, ast.Name) and v.id == elt]
        for p in params:
            if self.reads_count(callee.node, p):
                return True
        return False

    @staticmethod
    def reads_count(fn_node, p):
        for n in walk(fn_node, nested=True):
            if isinstance(n, ast.Subscript) and isinstance(n.value, ast.Name) \
                    and n.value.id == p and (
                        not isinstance(n.slice, ast.Constant) or
                        n.slice.value in COUNT_IDX):
                return True
            if isinstance(n, ast.Assign) and isinstance(n.value, ast.Name) \
                    and n.value.id == p and any(
                        isinstance(t, (ast.Tuple, ast.List))
                        for t in n.targets):
                return True
            if isinstance(n, (ast.For, ast.comprehension)) and \
                    isinstance(n.iter, ast.Name) and n.iter.id == p:
                return True
        return False

    def test_reads_count(self, e, elt, tainted, in_test=True):
        if _count_reads(e, elt, tainted):
            return True
        res = False
        for c in calls_in(e, nested=True):
            r = self.callee_reads_count(c, elt, in_test)
            if r:
                return True
            if r is None:
                res = None
        if in_test and names_in_expr(e) & self.unknown:
            raise Unrecognised('`%s` tests a value an unknown function made '
                               'of the node tuple' % short(e, 60))
        return res

    def elt_and_taint(self, target, body=None):
        """-> (element name | None, names holding the slot count) for a loop /
        comprehension target over node tuples; `body`: statements of the
        loop, in which locals computed from the count (also under a test on
        it) are followed to a fixpoint"""
        elt, tainted = None, set()
        if isinstance(target, ast.Name):
            elt = target.id
        elif isinstance(target, (ast.Tuple, ast.List)) and \
                len(target.elts) == 2 and \
                isinstance(target.elts[1], ast.Name):
            tainted.add(target.elts[1].id)
        else:
            raise Unrecognised('loop target `%s`' % short(target))
        if body is None:
            return elt, tainted
        changed = True
        while changed:
            changed = False

            def visit(stmts, under):
                nonlocal changed
                for s in stmts:
                    if isinstance(s, ast.Assign):
                        hot = self.test_reads_count(s.value, elt, tainted,
                                                    in_test=False)
                        if hot is None:
                            self.unknown |= set(
                                nm for t in s.targets for nm in stores_of(t))
                        hot = under or bool(hot)
                        if not hot and elt is not None and \
                                isinstance(s.value, ast.Name) and \
                                s.value.id == elt and any(
                                    isinstance(t, (ast.Tuple, ast.List)) and
                                    len(t.elts) == 2 for t in s.targets):
                            # name, slots = node
                            for t in s.targets:
                                if isinstance(t, (ast.Tuple, ast.List)) and \
                                        len(t.elts) == 2 and \
                                        isinstance(t.elts[1], ast.Name) and \
                                        t.elts[1].id not in tainted:
                                    tainted.add(t.elts[1].id)
                                    changed = True
                            continue
                        if hot:
                            for t in s.targets:
                                for nm in stores_of(t):
                                    if nm not in tainted and nm != elt:
                                        tainted.add(nm)
                                        changed = True
                    elif isinstance(s, ast.If):
                        u = under or self.test_reads_count(s.test, elt,
                                                           tainted)
                        visit(s.body, u)
                        visit(s.orelse, u)
                    elif isinstance(s, (ast.For, ast.While, ast.With)):
                        visit(s.body, under)
                        visit(getattr(s, 'orelse', []) or [], under)
                    elif isinstance(s, ast.Try):
                        visit(s.body, under)
                        for h in s.handlers:
                            visit(h.body, under)
                        visit(s.orelse, under)
                        visit(s.finalbody, under)
            visit(body, False)
        return elt, tainted

    # ----------------------------------------------------------------------
    def walk(self, e, at, filt):
        from ..flow import reaching_defs
        if isinstance(e, ast.Call):
            cn = call_name(e)
            if cn.endswith('._parse_nodefile'):
                self.hits.append((e, filt))
            elif (cn in FULL_ITER or cn.endswith('.copy')) and \
                    (e.args or cn.endswith('.copy')):
                self.walk(e.args[0] if e.args else e.func.value, at, filt)
            elif cn in ('filter', 'itertools.filterfalse', 'filterfalse') \
                    and len(e.args) == 2:
                fn = e.args[0]
                fl = filt
                if fl is None and isinstance(fn, ast.Lambda) and \
                        fn.args.args:
                    p = fn.args.args[0].arg
                    if self.test_reads_count(fn.body, p, set()):
                        fl = fn.body
                elif fl is None and not isinstance(fn, ast.Lambda):
                    callee = self.prog.resolve_callable(self.f, fn, self.K)
                    if callee is None:
                        raise Unrecognised('filter function `%s`' % short(fn))
                    ps = [p for p in callee.params if p not in ('self', 'cls')]
                    if ps and self.reads_count(callee.node, ps[0]):
                        fl = fn
                self.walk(e.args[1], at, fl)
            return
        if isinstance(e, ast.Name):
            key = (e.id, at)
            if key in self.busy:
                return
            self.busy.add(key)
            try:
                for c in calls_in(self.f.node):
                    if isinstance(c.func, ast.Attribute) and \
                            isinstance(c.func.value, ast.Name) and \
                            c.func.value.id == e.id and \
                            c.func.attr in ('remove', 'pop', 'clear'):
                        raise Unrecognised('nodes are taken out of `%s` in '
                                           'place: `%s`' % (e.id, short(c, 50)))
                for n in walk(self.f.node):
                    if isinstance(n, ast.Delete) and any(
                            isinstance(t, ast.Subscript) and
                            isinstance(t.value, ast.Name) and
                            t.value.id == e.id for t in n.targets):
                        raise Unrecognised('nodes are deleted from `%s` in '
                                           'place' % e.id)
                for dn, v in reaching_defs(self.g, e.id, at):
                    if v is None:
                        continue
                    if _empty_list(v):
                        self.grown(e.id, filt)
                    else:
                        self.walk(v, dn.id, filt)
            finally:
                self.busy.discard(key)
            return
        if isinstance(e, ast.Subscript) and isinstance(e.slice, ast.Slice):
            return self.walk(e.value, at, filt)
        if isinstance(e, (ast.ListComp, ast.GeneratorExp)):
            if len(e.generators) != 1:
                return
            gen = e.generators[0]
            elt, tainted = self.elt_and_taint(gen.target)
            fl = filt
            for c in gen.ifs:
                if fl is None and self.test_reads_count(c, elt, tainted):
                    fl = c
            before = len(self.hits)
            self.walk(gen.iter, at, fl)
            # the tuples are rebuilt with one count for all hosts, and a test
            # on the count follows
            if filt is not None and len(self.hits) > before and \
                    isinstance(e.elt, ast.Tuple) and len(e.elt.elts) == 2 and \
                    not names_in_expr(e.elt.elts[1]) & set(
                        stores_of(gen.target)):
                self.replaced.append((e.elt, filt))
            return
        if isinstance(e, ast.BoolOp):
            for v in e.values:
                self.walk(v, at, filt)
            return
        if isinstance(e, ast.IfExp):
            self.walk(e.body, at, filt)
            self.walk(e.orelse, at, filt)
            return
        if isinstance(e, ast.BinOp) and isinstance(e.op, ast.Add):
            self.walk(e.left, at, filt)
            self.walk(e.right, at, filt)

    def grown(self, name, filt):
        from ..flow import guards
        g = self.g
        for c in calls_in(self.f.node):
            if not isinstance(c.func, ast.Attribute) or \
                    not isinstance(c.func.value, ast.Name) or \
                    c.func.value.id != name or id(c) not in self.smap:
                continue
            an = self.smap[id(c)]
            if c.func.attr == 'extend' and c.args:
                self.walk(c.args[0], an.id, filt)
                continue
            if c.func.attr not in ('append', 'insert') or not c.args:
                continue
            item = c.args[-1]
            used = names_in_expr(item)
            head = None
            for h in reversed(an.loops):
                hn = g.nodes[h]
                if hn.kind == 'for' and used & set(stores_of(hn.ast.target)):
                    head = hn
                    break
            if head is None:
                continue                    # not an element of another list
            elt, tainted = self.elt_and_taint(head.ast.target, head.ast.body)
            fl = filt
            if fl is None:
                body = g.loop_body[head.id]
                for tid, lab in guards(g, an.id, start=loop_start(g, head.id),
                                       within=body):
                    t = g.nodes[tid].ast
                    if self.test_reads_count(t, elt, tainted):
                        fl = t
                        break
            before = len(self.hits)
            self.walk(head.ast.iter, head.id, fl)
            if filt is not None and len(self.hits) > before and \
                    isinstance(item, ast.Tuple) and len(item.elts) == 2 and \
                    not names_in_expr(item.elts[1]) & (
                        set(stores_of(head.ast.target)) | tainted):
                self.replaced.append((item, filt))
        for n in walk(self.f.node):
            if isinstance(n, ast.AugAssign) and \
                    isinstance(n.target, ast.Name) and n.target.id == name \
                    and id(n) in self.smap:
                self.walk(n.value, self.smap[id(n)].id, filt)


def r18_7(prog, rep, table, rid='R18.7'):
    rep.rule(rid, 'a resource manager which drops entries of the parsed node '
             'file by their slot count (login/batch pseudo nodes) parses the '
             'file without `cpn`: cpn supersedes the detected count of every '
             'host, the test could not tell the hosts apart', minimum=5)
    base = prog.cls(*RM)
    seen = set()
    n_calls = 0
    for name, K in sorted(table.items()):
        f = prog.find_method(K, 'init_from_scratch')
        if f is None or f.cls is base or f.where in seen:
            continue
        seen.add(f.where)
        parses = [c for c in calls_in(f.node)
                  if call_name(c).endswith('._parse_nodefile')]
        if not parses:
            continue
        rep.saw(f)
        pv = Prov(prog, f, K)
        try:
            for c in calls_in(f.node):
                if call_name(c) != 'self._get_node_list' or \
                        id(c) not in pv.smap:
                    continue
                builder = prog.resolve_call(f, c, K)
                first = None
                if builder is not None:
                    ps = [p for p in builder.params if p != 'self']
                    first = ps[0] if ps else None
                arg = kwarg(c, first, 0) if first else \
                    (c.args[0] if c.args else None)
                if arg is None:
                    raise Unrecognised('`%s`' % short(c, 60))
                pv.walk(arg, pv.smap[id(c)].id, None)
        except Unrecognised as e:
            raise AnalysisError('UNRECOGNISED-IDIOM %s: cannot follow the '
                                'node tuples to _parse_nodefile (%s)'
                                % (f.where, e))
        filt = {id(c): t for c, t in pv.hits if t is not None}
        for comp, t in pv.replaced:
            rep.bad(rid, f, '%s:count-replaced' % K.name, '%s.%s replaces the '
                    'slot counts detected in the node file by `%s` for every '
                    'host (`%s`) and afterwards drops entries by their slot '
                    'count (`%s`): the test is the same for all hosts, the '
                    'pseudo nodes the batch system lists with one slot stay in '
                    'the list and are offered as compute nodes'
                    % (K.name, f.name, short(comp.elts[1], 40),
                       short(comp, 60), short(t, 50)), f.loc(comp),
                    history='host file with an unmarked 1-slot launch node '
                    'followed by the compute nodes: the launch node is '
                    'offered, a compute node is cut off')
        for c in parses:
            n_calls += 1
            parser = prog.resolve_call(f, c, K)
            if parser is None:
                raise AnalysisError('%s: _parse_nodefile does not resolve for '
                                    '%s' % (f.where, K.name))
            ps = [p for p in parser.params if p != 'self']
            if 'cpn' not in ps:
                raise AnalysisError('UNRECOGNISED-IDIOM %s has no parameter '
                                    '`cpn` (parameters %s)' % (parser.where, ps))
            if any(isinstance(a, ast.Starred) for a in c.args) or \
                    any(k.arg is None for k in c.keywords):
                raise AnalysisError('UNRECOGNISED-IDIOM %s: `%s`'
                                    % (f.where, short(c, 60)))
            reads = any(isinstance(n, ast.Name) and n.id == 'cpn' and
                        isinstance(n.ctx, ast.Load)
                        for n in walk(parser.node, nested=True))
            cpn = kwarg(c, 'cpn', ps.index('cpn'))
            may = reads and cpn is not None and _may_be_true(prog, pv, f, cpn,
                                                             pv.smap.get(id(c)))
            t = filt.get(id(c))
            rep.check(not (may and t is not None), rid, f, '%s: %s'
                      % (K.name, 'the node tuples of `%s` are not filtered by '
                         'their slot count' % short(c, 40) if t is None else
                         'the slot-count filter `%s` sees the counts detected '
                         'in the file (no cpn)' % short(t, 40)),
                      construct='%s:cpn-vs-count-filter' % K.name,
                      message='%s.%s drops entries of the node file by their '
                      'slot count (`%s`) but parses the file with cpn=`%s`.  '
                      '%s lets a true `cpn` supersede the detected slot count '
                      'of EVERY host, so all tuples carry the same count and '
                      'the test cannot single out the pseudo nodes the batch '
                      'system lists with one slot (login / batch / launch '
                      'node): they stay in the list and are offered as compute '
                      'nodes - the reduction to requested_nodes then drops a '
                      'real compute node instead'
                      % (K.name, f.name, short(t, 60) if t is not None else '',
                         short(cpn, 40) if cpn is not None else '',
                         parser.qual), loc=f.loc(c),
                      history='config with cores_per_node: 20, SMT 1, 2-node '
                      'pilot, host file = launch node `lassen710` (1 line, '
                      'name not marked login/batch) + lassen21 x 20 + lassen22 '
                      'x 20: node_list = [lassen710, lassen21] instead of '
                      '[lassen21, lassen22]')
    rep.stat('parse_nodefile_calls', n_calls)


def _may_be_true(prog, pv, f, e, at, depth=0):
    """can the argument expression be true?  (only constants are known not to)"""
    from ..flow import reaching_defs
    v = prog.fold(f.module, e, f.cls)
    if v is not UNKNOWN:
        return bool(v)
    if isinstance(e, ast.Name) and at is not None and depth < 8:
        defs = reaching_defs(pv.g, e.id, at.id)
        if defs and all(d[1] is not None for d in defs):
            return any(_may_be_true(prog, pv, f, d[1], d[0], depth + 1)
                       for d in defs)
    return True


# ------------------------------------------------------------------------------
# R18.8  the RMInfo values which size the node entries are final when the
#        entries are built (definition must reach the use)
#
# calls which hand their argument's value on (the value ends up in the result)
CARRY_CALLS = {'list', 'tuple', 'sorted', 'reversed', 'int', 'float', 'abs',
               'round', 'max', 'min'}
SEQ_ADD     = {'append', 'extend', 'insert', 'add'}


def _info_attr(expr, var):
    """X of <var>.X, <var>['X'], <var>.get('X')"""
    if isinstance(expr, ast.Attribute) and isinstance(expr.value, ast.Name) \
            and expr.value.id == var:
        return expr.attr
    if isinstance(expr, ast.Subscript) and isinstance(expr.value, ast.Name) \
            and expr.value.id == var and \
            isinstance(expr.slice, ast.Constant) and \
            isinstance(expr.slice.value, str):
        return expr.slice.value
    if isinstance(expr, ast.Call) and call_name(expr) == var + '.get' and \
            expr.args and isinstance(expr.args[0], ast.Constant) and \
            isinstance(expr.args[0].value, str):
        return expr.args[0].value
    return None


def _info_reads(node, var):
    """{X} of the reads of <var>.X below node (store targets excluded)"""
    out = set()
    for n in walk(node):
        if isinstance(n, (ast.Attribute, ast.Subscript)) and \
                not isinstance(n.ctx, ast.Load):
            continue
        x = _info_attr(n, var)
        if x is not None:
            out.add(x)
    return out


def _handed_to(prog, f, K, var, skip=()):
    """[(call, callee, parameter)] for the calls of f which hand the plain
    name `var` to a method / function that resolves"""
    out = []
    for c in calls_in(f.node):
        if not any(isinstance(a, ast.Name) and a.id == var
                   for a in list(c.args) + [k.value for k in c.keywords]):
            continue
        callee = prog.resolve_call(f, c, K)
        if callee is None or callee is f or callee in skip:
            continue
        for p, v in bind_args(callee, c).items():
            if isinstance(v, ast.Name) and v.id == var:
                out.append((c, callee, p))
    return out


def builder_reads(prog, f, K, var, depth=0, _seen=None):
    """{X}: attributes of the RMInfo parameter `var` which f reads (also in
    the helpers it hands the RMInfo to)"""
    _seen = set() if _seen is None else _seen
    if (f.where, var) in _seen or depth > 3:
        return set()
    _seen.add((f.where, var))
    out = _info_reads(f.node, var)
    for c, callee, p in _handed_to(prog, f, K, var):
        out |= builder_reads(prog, callee, K, p, depth + 1, _seen)
    return out


def info_stores(prog, f, K, var, skip=(), depth=0, _seen=None):
    """[(X, ast node of f, overwrite, text)]: stores to <var>.X in f, directly
    or in a helper f hands `var` to (then the node is the call).  `overwrite`
    is False for a store whose new value is computed from the old one
    (`x.X -= n`)"""
    _seen = set() if _seen is None else _seen
    if (f.where, var) in _seen or depth > 3:
        return []
    _seen.add((f.where, var))
    out = []
    for kind, target, stmt in I.stores(f.node):
        x = _info_attr(target, var)
        if x is None or kind == 'mutate':
            continue
        v = getattr(stmt, 'value', None)
        over = kind == 'del' or kind == 'assign' and (
            v is None or x not in _info_reads(v, var))
        out.append((x, stmt, over, short(stmt, 60)))
    for c, callee, p in _handed_to(prog, f, K, var, skip):
        if callee.name == 'init_from_scratch':
            continue
        for x, _, over, text in info_stores(prog, callee, K, p, skip,
                                            depth + 1, _seen):
            out.append((x, c, over, '%s in %s' % (text, callee.qual)))
    return out


def _carried(expr, var, names, reads):
    """collect what the value of expr is made of: plain names -> `names`,
    reads of <var>.X -> `reads`.  Followed through containers, arithmetic,
    conditional expressions, comprehension elements and value-preserving
    calls - not through the arguments of other calls (their meaning is not
    known: `cpn=0` means "count the slots")"""
    if expr is None:
        return
    x = _info_attr(expr, var)
    if x is not None:
        reads.add(x)
    elif isinstance(expr, ast.Name):
        names.add(expr.id)
    elif isinstance(expr, (ast.Tuple, ast.List, ast.Set)):
        for e in expr.elts:
            _carried(e, var, names, reads)
    elif isinstance(expr, ast.Starred):
        _carried(expr.value, var, names, reads)
    elif isinstance(expr, ast.BinOp):
        _carried(expr.left, var, names, reads)
        _carried(expr.right, var, names, reads)
    elif isinstance(expr, ast.BoolOp):
        for e in expr.values:
            _carried(e, var, names, reads)
    elif isinstance(expr, ast.IfExp):
        _carried(expr.body, var, names, reads)
        _carried(expr.orelse, var, names, reads)
    elif isinstance(expr, (ast.ListComp, ast.SetComp, ast.GeneratorExp)):
        _carried(expr.elt, var, names, reads)
    elif isinstance(expr, ast.Subscript):
        _carried(expr.value, var, names, reads)
    elif isinstance(expr, ast.Call) and call_name(expr) in CARRY_CALLS:
        for e in expr.args:
            _carried(e, var, names, reads)


def embedded_reads(f, var, arg):
    """[(stmt, {X})]: statements of f which put the value of <var>.X into the
    object handed to the builder as `arg` (flow-insensitive closure over the
    local names the object is made of)"""
    names, reads = set(), set()
    _carried(arg, var, names, reads)
    out = []
    if reads:
        out.append((arg, set(reads)))
    done = set()
    while names - done:
        nm = sorted(names - done)[0]
        done.add(nm)
        for n in walk(f.node):
            rd = set()
            if isinstance(n, ast.Assign) and \
                    any(isinstance(e, ast.Name) and e.id == nm
                        for t in n.targets for e in I._flat(t)):
                if all(isinstance(t, ast.Name) for t in n.targets):
                    _carried(n.value, var, names, rd)
                elif isinstance(n.value, (ast.Tuple, ast.List)) and \
                        len(n.targets) == 1 and \
                        isinstance(n.targets[0], (ast.Tuple, ast.List)) and \
                        len(n.targets[0].elts) == len(n.value.elts):
                    for t, v in zip(n.targets[0].elts, n.value.elts):
                        if isinstance(t, ast.Name) and t.id == nm:
                            _carried(v, var, names, rd)
            elif isinstance(n, ast.AugAssign) and \
                    isinstance(n.target, ast.Name) and n.target.id == nm:
                _carried(n.value, var, names, rd)
            elif isinstance(n, ast.Call) and \
                    isinstance(n.func, ast.Attribute) and \
                    n.func.attr in SEQ_ADD and \
                    isinstance(n.func.value, ast.Name) and \
                    n.func.value.id == nm:
                for e in n.args:
                    _carried(e, var, names, rd)
            if rd:
                out.append((n, rd))
    return out


def _stale_after(g, smap, site, attrs, stores):
    """stores to one of `attrs` which can run after `site` (a cfg node) on a
    path which then reaches the exit without running `site` again"""
    after = set()
    for e in g.succ[site.id]:
        if e.label != 'exc':                 # site raised: nothing was built
            after |= g.reachable(e.dst)
    out = []
    for x, node, over, text in stores:
        t = smap.get(id(node))
        if x not in attrs or t is None or t.id == site.id or \
                t.id not in after:
            continue
        if g.exit.id in g.reachable(t.id, skip_nodes={site.id}):
            out.append((x, node, over, text))
    return out


def r18_8(prog, rep, table, rid='R18.8'):
    rep.rule(rid, 'the RMInfo attributes which size the node entries '
             '(read by _get_node_list, or put into the node tuples it is '
             'given) are not stored again after the entries were built: in '
             'init_from_scratch of every RM of the table, and - other than '
             'by an adjustment of the old value - in _init_from_scratch '
             'after the RM returned', minimum=14)
    base = prog.cls(*RM)
    done = {}
    sizing = set()

    def analyse(K, f):
        """-> {X} the attributes f builds node entries from; reports"""
        key = (K.where, f.where)
        if key in done:
            return done[key]
        done[key] = set()
        params = [p for p in f.params if p != 'self']
        if not params:
            raise AnalysisError('UNRECOGNISED-IDIOM %s: no rm_info parameter'
                                % f.where)
        var = params[0]
        g = cfg_of(f)
        smap = I.stmt_node_map(g)
        sites = []                           # (cfg node, {X}, text)
        builders = set()
        for c in calls_in(f.node):
            n = smap.get(id(c))
            if n is None:
                continue
            if call_name(c) == 'self._get_node_list':
                callee = prog.resolve_call(f, c, K)
                if callee is None:
                    raise AnalysisError('%s: self._get_node_list does not '
                                        'resolve for %s' % (f.where, K.name))
                builders.add(callee)
                b = bind_args(callee, c)
                bp = [p for p, v in b.items()
                      if isinstance(v, ast.Name) and v.id == var]
                if not bp:
                    continue                 # foreign RMInfo: R18.1 reports
                reads = set()
                for p in bp:
                    reads |= builder_reads(prog, callee, K, p)
                sites.append((n, reads, 'built by %s' % short(c, 50)))
                others = [v for p, v in b.items() if p not in bp]
                for a in others:
                    for stmt, rd in embedded_reads(f, var, a):
                        m = smap.get(id(stmt))
                        if m is not None:
                            sites.append((m, rd, 'put into the node tuples '
                                          'by `%s`' % short(stmt, 50)))
            elif call_name(c) == 'super().' + f.name:
                callee = prog.resolve_call(f, c, K)
                if callee is None or callee.cls is base:
                    continue
                a0 = c.args[0] if c.args else kwarg(c, var)
                if isinstance(a0, ast.Name) and a0.id == var:
                    sites.append((n, analyse(K, callee), 'built by %s'
                                  % short(c, 50)))
        stores = info_stores(prog, f, K, var, skip=builders)
        attrs = set()
        for n, reads, text in sites:
            attrs |= reads
            late = _stale_after(g, smap, n, reads, stores)
            for x, node, over, stext in late:
                rep.bad(rid, f, '%s:%s stored after use' % (K.name, x),
                        '%s.%s stores rm_info.%s (`%s`) after the node '
                        'entries were %s, which read rm_info.%s at that '
                        'moment: every entry of rm_info.node_list keeps the '
                        'size of the old value while RMInfo.%s announces the '
                        'new one - the pilot offers nodes which do not have '
                        'the configured / detected number of cores or GPUs'
                        % (K.name, f.name, x, stext, text, x, x),
                        f.loc(node),
                        history='%s with %s not set in the resource config '
                        '(0) and announced by the batch environment (e.g. '
                        '$SLURM_GPUS_ON_NODE=4): RMInfo.%s == 4 but every '
                        'node entry was sized with 0 (`gpus == []`): no GPU '
                        'task is ever placed; with blocked_gpus configured '
                        'the assert in _init_from_scratch kills the agent'
                        % (K.name, x, x))
            if not late:
                rep.ok(rid, f, '%s: nothing stores rm_info.%s after the '
                       'entries were %s' % (K.name, '/'.join(sorted(reads))
                                            or '-', text), f.loc(n.ast))
        done[key] = attrs
        return attrs

    for name, K in sorted(table.items()):
        f = prog.find_method(K, 'init_from_scratch')
        if f is None or f.cls is base:
            continue                         # R18.1 reports
        sizing |= analyse(K, f)
    if not sizing:
        raise AnalysisError('%s: no resource manager builds node entries '
                            'from its RMInfo' % rid)
    # base class: after the RM returned, only adjustments of the old value
    s = prog.method(RM[0], RM[1], '_init_from_scratch')
    g = cfg_of(s)
    smap = I.stmt_node_map(g)
    var, _ = scratch_contexts(prog, rep)
    deleg = [c for c in calls_in(s.node)
             if call_name(c) == 'self.init_from_scratch' and
             smap.get(id(c)) is not None]
    if len(deleg) != 1:
        raise AnalysisError('UNRECOGNISED-IDIOM %s: %d calls of '
                            'self.init_from_scratch' % (s.where, len(deleg)))
    site = smap[id(deleg[0])]
    names = {var} | {a.id for a in deleg[0].args if isinstance(a, ast.Name)}
    stores = []
    for nm in sorted(names):
        stores += [st for st in info_stores(prog, s, base, nm) if st[2]]
    late = _stale_after(g, smap, site, sizing, stores)
    for x, node, over, stext in late:
        rep.bad(rid, s, '_init_from_scratch:%s overwritten' % x,
                'ResourceManager._init_from_scratch overwrites rm_info.%s '
                '(`%s`) after the resource manager built rm_info.node_list '
                'from it (and possibly detected it): the node entries keep '
                'the size of the value the RM saw, RMInfo.%s announces '
                'another one' % (x, stext, x), s.loc(node),
                history='Slurm pilot without %s in the config, '
                '$SLURM_GPUS_ON_NODE=4 / $SLURM_CPUS_ON_NODE=8: the RM '
                'builds entries with the detected size, then the config '
                'value (0) is written over RMInfo.%s' % (x, x))
    if not late:
        rep.ok(rid, s, 'after self.init_from_scratch() returned, rm_info.%s '
               'are only adjusted (old value - blocked), never overwritten'
               % '/'.join(sorted(sizing)), s.loc(deleg[0]))
    rep.stat('sizing_attrs', len(sizing))


# ------------------------------------------------------------------------------
# R18.10  _get_cores_per_node refuses a node list with different slot counts
#
# Guard strength over a finite domain: L = number of DISTINCT counts in the
# node tuples.  L == 1 is the uniform list; for L >= 2 the entries keep their
# own counts while one (arbitrary) of them would be announced as
# cores_per_node.  The tests on that number are evaluated for L = 2 and L = 3
# (3 stands for "many"): no normal return may be reachable.
#
def _derived_names(f, seeds):
    names = set(seeds)
    changed = True
    while changed:
        changed = False
        for n in walk(f.node):
            tg, src = [], None
            if isinstance(n, ast.Assign):
                tg, src = n.targets, n.value
            elif isinstance(n, (ast.AugAssign, ast.AnnAssign)) and \
                    n.value is not None:
                tg, src = [n.target], n.value
            elif isinstance(n, ast.For):
                tg, src = [n.target], n.iter
            if src is None or not names_in_expr(src) & names:
                continue
            for t in tg:
                for nm in stores_of(t):
                    if nm not in names:
                        names.add(nm)
                        changed = True
    return names


class Distinct:
    """truth of the tests of f for a given number L of distinct slot counts"""

    def __init__(self, f, g, derived):
        self.f, self.g, self.derived = f, g, derived

    def single_def(self, name, at):
        from ..flow import reaching_defs
        defs = reaching_defs(self.g, name, at)
        if len(defs) == 1 and defs[0][1] is not None:
            return defs[0]
        return None

    def is_distinct(self, e, at, depth=0):
        """e is the collection of the distinct counts (set / dict keyed by
        the count, made of the node tuples)"""
        from ..flow import reaching_defs
        if depth > 6:
            return False
        if isinstance(e, ast.Name):
            defs = reaching_defs(self.g, e.id, at)
            return bool(defs) and all(
                v is not None and self.is_distinct(v, d.id, depth + 1)
                for d, v in defs)
        if isinstance(e, (ast.SetComp, ast.DictComp)):
            return bool(names_in_expr(e) & self.derived)
        if isinstance(e, ast.Call) and call_name(e) in KEYED_CTORS and \
                e.args:
            return bool(names_in_expr(e) & self.derived)
        return False

    def num(self, e, at, L, depth=0):
        if depth > 6:
            return None
        if isinstance(e, ast.Constant) and isinstance(e.value, int) and \
                not isinstance(e.value, bool):
            return e.value
        if isinstance(e, ast.Call) and call_name(e) == 'len' and \
                len(e.args) == 1 and self.is_distinct(e.args[0], at):
            return L
        if isinstance(e, ast.Name):
            d = self.single_def(e.id, at)
            if d is not None:
                return self.num(d[1], d[0].id, L, depth + 1)
        return None

    def _extreme(self, e, which):
        return isinstance(e, ast.Call) and call_name(e) == which and \
            len(e.args) == 1 and bool(names_in_expr(e) & self.derived)

    def truth(self, e, at, L, depth=0):
        if depth > 6:
            return None
        if isinstance(e, ast.UnaryOp) and isinstance(e.op, ast.Not):
            t = self.truth(e.operand, at, L, depth + 1)
            return None if t is None else not t
        if isinstance(e, ast.BoolOp):
            ts = [self.truth(v, at, L, depth + 1) for v in e.values]
            if isinstance(e.op, ast.And):
                return False if any(t is False for t in ts) else \
                    True if all(t is True for t in ts) else None
            return True if any(t is True for t in ts) else \
                False if all(t is False for t in ts) else None
        if isinstance(e, ast.Compare) and len(e.ops) > 1:
            # a < b <= c: the conjunction of the pairs
            ts, l = [], e.left
            for op, r in zip(e.ops, e.comparators):
                ts.append(self.truth(ast.Compare(left=l, ops=[op],
                                                 comparators=[r]),
                                     at, L, depth + 1))
                l = r
            return False if any(t is False for t in ts) else \
                True if all(t is True for t in ts) else None
        if isinstance(e, ast.Compare) and len(e.ops) == 1:
            l, r, op = e.left, e.comparators[0], e.ops[0]
            if isinstance(op, (ast.Eq, ast.NotEq)) and (
                    self._extreme(l, 'min') and self._extreme(r, 'max') or
                    self._extreme(l, 'max') and self._extreme(r, 'min')):
                return (L == 1) == isinstance(op, ast.Eq)
            a, b = self.num(l, at, L), self.num(r, at, L)
            if a is None or b is None:
                return None
            for kind, fn in ((ast.Eq, lambda: a == b), (ast.NotEq, lambda: a != b),
                             (ast.Lt, lambda: a < b), (ast.LtE, lambda: a <= b),
                             (ast.Gt, lambda: a > b), (ast.GtE, lambda: a >= b)):
                if isinstance(op, kind):
                    return fn()
            return None
        if isinstance(e, ast.Call) and call_name(e) == 'bool' and \
                len(e.args) == 1:
            return self.truth(e.args[0], at, L, depth + 1)
        if self.is_distinct(e, at):
            return L > 0
        n = self.num(e, at, L)
        if n is not None:
            return n != 0
        if isinstance(e, ast.Name):
            d = self.single_def(e.id, at)
            if d is not None:
                return self.truth(d[1], d[0].id, L, depth + 1)
        return None


def r18_10(prog, rep, table, rid='R18.10'):
    rep.rule(rid, '_get_cores_per_node returns a count only for a uniform '
             'node list: with two or more distinct slot counts in the node '
             'tuples no path reaches a normal return (the guard in front of '
             'the return, evaluated over the number of distinct counts)',
             minimum=1)
    base = prog.cls(*RM)
    funcs = {}
    for K in [base] + sorted(table.values(), key=lambda k: k.where):
        f = prog.find_method(K, '_get_cores_per_node')
        if f is not None:
            funcs[f.where] = f
    if not funcs:
        raise AnalysisError('anchor ResourceManager._get_cores_per_node not '
                            'found')
    for where, f in sorted(funcs.items()):
        rep.saw(f)
        params = [p for p in f.params if p not in ('self', 'cls')]
        if not params:
            raise AnalysisError('UNRECOGNISED-IDIOM %s: no parameter for the '
                                'node tuples' % f.where)
        g = cfg_of(f)
        derived = _derived_names(f, {params[0]})
        dd = Distinct(f, g, derived)
        witness = None
        for L in (2, 3):
            skip, unknown = [], []
            for n in g.nodes:
                if n.kind != 'test':
                    continue
                t = dd.truth(n.ast, n.id, L)
                if t is True:
                    skip.append((n.id, 'F'))
                elif t is False:
                    skip.append((n.id, 'T'))
                elif names_in_expr(n.ast) & derived:
                    unknown.append(n)
            reach = g.reachable(g.entry.id, skip_edges=skip)
            if g.exit.id not in reach:
                continue
            unknown = [n for n in unknown if n.id in reach]
            if unknown:
                raise AnalysisError('UNRECOGNISED-IDIOM %s: cannot evaluate '
                                    '`%s` for a node list with %d distinct '
                                    'slot counts' % (f.where, short(
                                        unknown[0].ast, 60), L))
            witness = witness or L
        tests = [short(n.ast, 50) for n in g.nodes if n.kind == 'test' and
                 names_in_expr(n.ast) & derived]
        rep.check(witness is None, rid, f, 'no normal return for 2 or more '
                  'distinct slot counts (tests: %s)' % (', '.join(tests) or '-'),
                  construct='uniform-or-refused',
                  message='%s returns a cores-per-node value for a node list '
                  'whose tuples carry %d different slot counts (%s): the '
                  'value announced as rm_info.cores_per_node is one of them, '
                  'picked arbitrarily, while every node entry is sized by its '
                  'own count - the pilot offers nodes which do not have the '
                  'announced number of cores instead of refusing the '
                  'non-uniform node file'
                  % (f.qual, witness or 0, 'the tests in front of the return '
                     'are: %s' % ', '.join('`%s`' % t for t in tests)
                     if tests else 'there is no test on the counts'),
                  loc=f.loc(), history='Torque / CCM / LSF without '
                  'cores_per_node in the config, node file n1 x4, n2 x2, '
                  'n3 x4: accepted with cores_per_node = 2 (or 4), the '
                  'entries of n1 and n3 have 4 cores, the one of n2 has 2')


# ------------------------------------------------------------------------------
# R18.14  a refusal of a non-uniform allocation is not swallowed on the way to
#         the caller of init_from_scratch (handler discipline)
#
# A *refusing helper* draws ONE count from a set of detected counts
# (`ncpus_set.pop()`, `cores_per_node.pop()`) and raises when the set holds
# more than one: the RM cannot describe such an allocation with one
# cores-per-node figure.  That raise is the pilot's way of not offering what
# it was not given; it has to leave init_from_scratch.  A handler between the
# helper and the caller which catches the raised type must re-raise this very
# exception (its tests on the message are evaluated on the text the helper
# raises with); if it can complete normally and the code behind it sizes the
# node entries with ONE count for all hosts (`_parse_nodefile(cpn=...)`, tuples
# made with rm_info.<attr>), hosts are offered with a count they do not have.
#
import builtins as _bi

SET_CTORS = {'set', 'frozenset'}
DRAW_FUNCS = {'min', 'max'}


def _is_set_ctor(v):
    return isinstance(v, (ast.Set, ast.SetComp)) or \
        isinstance(v, ast.Call) and call_name(v) in SET_CTORS


def _drawn_name(e):
    """S if e takes one element out of the collection named S"""
    if isinstance(e, ast.Call) and isinstance(e.func, ast.Attribute) and \
            e.func.attr == 'pop' and not e.args and \
            isinstance(e.func.value, ast.Name):
        return e.func.value.id
    if isinstance(e, ast.Call) and call_name(e) in DRAW_FUNCS and \
            len(e.args) == 1 and isinstance(e.args[0], ast.Name):
        return e.args[0].id
    if isinstance(e, ast.Call) and call_name(e) == 'next' and e.args and \
            isinstance(e.args[0], ast.Call) and \
            call_name(e.args[0]) == 'iter' and len(e.args[0].args) == 1 and \
            isinstance(e.args[0].args[0], ast.Name):
        return e.args[0].args[0].id
    if isinstance(e, ast.Subscript) and isinstance(e.slice, ast.Constant) and \
            isinstance(e.slice.value, int) and isinstance(e.value, ast.Call) \
            and call_name(e.value) in ('list', 'sorted', 'tuple') and \
            len(e.value.args) == 1 and \
            isinstance(e.value.args[0], ast.Name):
        return e.value.args[0].id
    return None


class _CountSets(Distinct):
    """Distinct for a helper without a node-tuple parameter: the collection of
    distinct counts is a set built in the function from which one element is
    drawn into the function's result"""

    def __init__(self, f, g):
        from ..flow import reaching_defs
        smap = I.stmt_node_map(g)
        setdefs = {n.id for n in g.nodes if n.kind == 'stmt' and
                   isinstance(n.ast, ast.Assign) and _is_set_ctor(n.ast.value)}
        returned = set()
        for n in walk(f.node):
            if isinstance(n, ast.Return) and n.value is not None:
                returned |= names_in_expr(n.value)
        self.count_defs = set()
        names = set()
        for x in walk(f.node):
            s = _drawn_name(x)
            at = smap.get(id(x))
            if s is None or at is None:
                continue
            st = at.ast
            flows = isinstance(st, ast.Return) or \
                isinstance(st, ast.Assign) and any(
                    set(stores_of(t)) & returned for t in st.targets)
            if not flows:
                continue
            defs = reaching_defs(g, s, at.id)
            if defs and all(d.id in setdefs for d, v in defs):
                self.count_defs |= {d.id for d, v in defs}
                names.add(s)
        self.params = {p for p in f.params if p not in ('self', 'cls')}
        Distinct.__init__(self, f, g, _derived_names(f, names | self.params))

    def is_distinct(self, e, at, depth=0):
        from ..flow import reaching_defs
        if isinstance(e, ast.Name):
            defs = reaching_defs(self.g, e.id, at)
            if defs and all(d.id in self.count_defs for d, v in defs):
                return True
        return Distinct.is_distinct(self, e, at, depth)

    def _collection(self, e, at, depth=0):
        """e holds one element per detected count / node tuple (not filtered):
        it is empty only if nothing was detected"""
        from ..flow import reaching_defs
        if depth > 6:
            return False
        if isinstance(e, (ast.ListComp, ast.SetComp, ast.GeneratorExp)):
            return len(e.generators) == 1 and not e.generators[0].ifs and \
                self._collection(e.generators[0].iter, at, depth + 1)
        if isinstance(e, ast.Call) and call_name(e) in (
                'list', 'sorted', 'set', 'tuple', 'frozenset') and \
                len(e.args) == 1:
            return self._collection(e.args[0], at, depth + 1)
        if isinstance(e, ast.Name):
            defs = reaching_defs(self.g, e.id, at)
            if not defs:
                return e.id in self.params
            return all(v is not None and
                       self._collection(v, d.id, depth + 1) for d, v in defs)
        return False

    def truth(self, e, at, L, depth=0):
        if L > 0 and not isinstance(e, (ast.BoolOp, ast.UnaryOp)) and \
                self._collection(e, at):
            return True
        return Distinct.truth(self, e, at, L, depth)


def _pruned(g, dd, L):
    skip = []
    for n in g.nodes:
        if n.kind != 'test':
            continue
        t = dd.truth(n.ast, n.id, L)
        if t is True:
            skip.append((n.id, 'F'))
        elif t is False:
            skip.append((n.id, 'T'))
    return g.reachable(g.entry.id, skip_edges=skip)


def _msg_of(exc):
    """(leading text, complete?) of the message a `raise X(<msg>)` carries"""
    if not isinstance(exc, ast.Call) or not exc.args:
        return ('', not (isinstance(exc, ast.Call) and exc.keywords))
    a = exc.args[0]
    if len(exc.args) > 1:
        return ('', False)
    if isinstance(a, ast.Constant) and isinstance(a.value, str):
        return (a.value, True)
    if isinstance(a, ast.BinOp) and isinstance(a.op, ast.Mod) and \
            isinstance(a.left, ast.Constant) and isinstance(a.left.value, str):
        return (a.left.value.split('%', 1)[0], False)
    if isinstance(a, ast.BinOp) and isinstance(a.op, ast.Add) and \
            isinstance(a.left, ast.Constant) and isinstance(a.left.value, str):
        return (a.left.value, False)
    if isinstance(a, ast.JoinedStr):
        lead = ''
        for v in a.values:
            if isinstance(v, ast.Constant) and isinstance(v.value, str):
                lead += v.value
            else:
                return (lead, False)
        return (lead, True)
    if isinstance(a, ast.Call) and isinstance(a.func, ast.Attribute) and \
            a.func.attr == 'format' and isinstance(a.func.value, ast.Constant) \
            and isinstance(a.func.value.value, str):
        return (a.func.value.value.split('{', 1)[0], False)
    return ('', False)


def refusals_of(prog, h):
    """[(raise stmt, type expr, (text, complete))]: the raises by which h
    refuses a set of two or more distinct counts (reachable for 2 and for 3
    distinct values, not for 1)"""
    g = cfg_of(h)
    dd = _CountSets(h, g)
    if not dd.count_defs and not dd.params:
        return []
    one = _pruned(g, dd, 1)
    more = _pruned(g, dd, 2) & _pruned(g, dd, 3)
    out = []
    for n in g.nodes:
        if n.kind == 'stmt' and isinstance(n.ast, ast.Raise) and \
                n.id in more and n.id not in one and n.ast.exc is not None:
            exc = n.ast.exc
            out.append((n.ast, exc.func if isinstance(exc, ast.Call) else exc,
                        _msg_of(exc)))
    return out


def _exc_chain(prog, mod, expr):
    """names of the exception type `expr` and of its bases (package classes by
    their `where`, builtins by name); None if it does not resolve"""
    nm = unparse(expr)
    b = getattr(_bi, nm, None)
    if isinstance(b, type) and issubclass(b, BaseException):
        return [k.__name__ for k in b.__mro__ if k is not object]
    r = prog.resolve(mod, expr)
    if not r or r[0] != 'class':
        return None
    out = []
    for k in prog.mro(r[1]):
        out.append(k.where)
        for bx in k.node.bases:
            bb = getattr(_bi, unparse(bx), None)
            if isinstance(bb, type) and issubclass(bb, BaseException):
                out += [q.__name__ for q in bb.__mro__ if q is not object]
    return out


def _exc_ident(prog, mod, expr):
    ch = _exc_chain(prog, mod, expr)
    return ch[0] if ch else None


def _catches(prog, fn, handler, chain):
    """does `handler` of fn catch an exception with the base chain `chain`?"""
    if handler.type is None:
        return True
    types = handler.type.elts if isinstance(handler.type, ast.Tuple) \
        else [handler.type]
    for t in types:
        ident = _exc_ident(prog, fn.module, t)
        if ident is None:
            raise AnalysisError('UNRECOGNISED-IDIOM %s: exception type `%s` '
                                'of a handler does not resolve'
                                % (fn.where, short(t, 40)))
        if ident in chain:
            return True
    return False


class _HandlerEval:
    """can a handler complete normally (fall through, return, continue, break)
    for one given exception?"""

    def __init__(self, prog, fn, g, handler, chain, msg):
        self.prog, self.fn, self.g = prog, fn, g
        self.h, self.chain, self.msg = handler, chain, msg
        self.var = handler.name
        self.inside = {id(x) for s in handler.body for x in ast.walk(s)}

    def _is_exc(self, e):
        return self.var is not None and isinstance(e, ast.Name) and \
            e.id == self.var

    def _is_text(self, e, at, depth=0):
        """e is the text of the exception"""
        from ..flow import reaching_defs
        if depth > 6:
            return False
        if isinstance(e, ast.Call) and call_name(e) in ('str', 'repr') and \
                len(e.args) == 1 and self._is_exc(e.args[0]):
            return call_name(e) == 'str'
        if isinstance(e, ast.Subscript) and \
                isinstance(e.slice, ast.Constant) and e.slice.value == 0 and \
                isinstance(e.value, ast.Attribute) and \
                e.value.attr == 'args' and self._is_exc(e.value.value):
            return True
        if isinstance(e, ast.BinOp) and isinstance(e.op, ast.Mod) and \
                isinstance(e.left, ast.Constant) and e.left.value == '%s' and \
                self._is_exc(e.right):
            return True
        if isinstance(e, ast.Name):
            defs = reaching_defs(self.g, e.id, at)
            return len(defs) == 1 and defs[0][1] is not None and \
                id(defs[0][0].ast) in self.inside and \
                self._is_text(defs[0][1], defs[0][0].id, depth + 1)
        return False

    def _consts(self, e):
        v = self.prog.fold(self.fn.module, e, self.fn.cls)
        if isinstance(v, str):
            return [v]
        if isinstance(v, (tuple, list)) and v and \
                all(isinstance(x, str) for x in v):
            return list(v)
        return None

    def _starts(self, c):
        text, complete = self.msg
        if complete or len(text) >= len(c):
            return text.startswith(c)
        return None if c.startswith(text) else False

    def _contains(self, c):
        text, complete = self.msg
        if complete:
            return c in text
        return True if c in text else None

    def _equals(self, c):
        text, complete = self.msg
        if complete:
            return text == c
        return None if c.startswith(text) else False

    def truth(self, e, at, depth=0):
        from ..flow import reaching_defs
        if depth > 8:
            return None
        if isinstance(e, ast.UnaryOp) and isinstance(e.op, ast.Not):
            t = self.truth(e.operand, at, depth + 1)
            return None if t is None else not t
        if isinstance(e, ast.BoolOp):
            ts = [self.truth(v, at, depth + 1) for v in e.values]
            if isinstance(e.op, ast.And):
                return False if any(t is False for t in ts) else \
                    True if all(t is True for t in ts) else None
            return True if any(t is True for t in ts) else \
                False if all(t is False for t in ts) else None
        if isinstance(e, ast.Call) and isinstance(e.func, ast.Attribute) and \
                e.func.attr in ('startswith', 'endswith') and \
                len(e.args) == 1 and self._is_text(e.func.value, at):
            cs = self._consts(e.args[0])
            if cs is None:
                return None
            if e.func.attr == 'endswith':
                if not self.msg[1]:
                    return None
                return any(self.msg[0].endswith(c) for c in cs)
            ts = [self._starts(c) for c in cs]
            return True if any(t is True for t in ts) else \
                False if all(t is False for t in ts) else None
        if isinstance(e, ast.Compare) and len(e.ops) == 1:
            l, r, op = e.left, e.comparators[0], e.ops[0]
            if isinstance(op, (ast.In, ast.NotIn)) and self._is_text(r, at):
                cs = self._consts(l)
                t = self._contains(cs[0]) if cs and len(cs) == 1 else None
                return t if t is None or isinstance(op, ast.In) else not t
            if isinstance(op, (ast.Eq, ast.NotEq)):
                t = None
                if self._is_text(l, at):
                    cs = self._consts(r)
                    t = self._equals(cs[0]) if cs and len(cs) == 1 else None
                elif self._is_text(r, at):
                    cs = self._consts(l)
                    t = self._equals(cs[0]) if cs and len(cs) == 1 else None
                return t if t is None or isinstance(op, ast.Eq) else not t
            return None
        if isinstance(e, ast.Call) and call_name(e) == 'isinstance' and \
                len(e.args) == 2 and self._is_exc(e.args[0]):
            types = e.args[1].elts if isinstance(e.args[1], ast.Tuple) \
                else [e.args[1]]
            ids = [_exc_ident(self.prog, self.fn.module, t) for t in types]
            if None in ids:
                return None
            return any(i in self.chain for i in ids)
        if isinstance(e, ast.Name):
            defs = reaching_defs(self.g, e.id, at)
            if len(defs) == 1 and defs[0][1] is not None and \
                    id(defs[0][0].ast) in self.inside:
                return self.truth(defs[0][1], defs[0][0].id, depth + 1)
        return None

    def _about_exc(self, e, at, depth=0):
        """does the (undecided) test look at the exception?"""
        from ..flow import reaching_defs
        if self.var is None:
            return False
        for x in walk(e, nested=True):
            if not isinstance(x, ast.Name):
                continue
            if x.id == self.var:
                return True
            if depth < 4:
                for d, v in reaching_defs(self.g, x.id, at):
                    if v is not None and id(d.ast) in self.inside and \
                            self._about_exc(v, d.id, depth + 1):
                        return True
        return False

    def run(self):
        """-> ('raises', rethrown) | ('completes', first node id behind the
        handler) | ('unknown', test): `rethrown` is True when every leaving
        path re-raises the caught exception itself"""
        g = self.g
        hn = [n for n in g.nodes if n.kind == 'handler' and n.ast is self.h]
        if not hn:
            raise AnalysisError('UNRECOGNISED-IDIOM %s: handler `%s` has no '
                                'node' % (self.fn.where, short(self.h, 40)))
        todo, seen = [hn[0].id], set()
        out, same, undecided = None, True, None
        while todo:
            nid = todo.pop()
            if nid in seen:
                continue
            seen.add(nid)
            n = g.nodes[nid]
            if nid != hn[0].id and (
                    n.ast is not None and id(n.ast) not in self.inside
                    or n.kind in ('exit',)):
                out = nid if out is None else out
                continue
            if n.kind == 'stmt' and isinstance(n.ast, ast.Raise):
                x = n.ast.exc
                if not (x is None or self._is_exc(x)):
                    same = False
                continue
            t = None
            if n.kind == 'test':
                t = self.truth(n.ast, nid)
                if t is None and self._about_exc(n.ast, nid):
                    undecided = undecided or n.ast
            for e in g.succ[nid]:
                if e.label == 'exc':
                    continue
                if t is True and e.label == 'F' or \
                        t is False and e.label == 'T':
                    continue
                todo.append(e.dst)
        if out is None:
            return ('raises', same)
        if undecided is not None:
            return ('unknown', undecided)
        return ('completes', out)


def _imposes_count(prog, fn, K, g, smap, start):
    """a statement reachable from node `start` of fn which gives every host
    the same count: `_parse_nodefile(.., cpn=<may be true>)`, or a node tuple
    made with an attribute of the RMInfo; -> text | None"""
    reach = g.reachable(start)
    for c in calls_in(fn.node):
        n = smap.get(id(c))
        if n is None or n.id not in reach:
            continue
        if call_name(c).endswith('._parse_nodefile'):
            parser = prog.resolve_call(fn, c, K)
            if parser is None:
                continue
            ps = [p for p in parser.params if p != 'self']
            if 'cpn' not in ps:
                continue
            cpn = bind_args(parser, c).get('cpn')
            if cpn is None:
                continue
            v = prog.fold(fn.module, cpn, fn.cls)
            if v is not UNKNOWN and not v:
                continue
            return '`%s` gives every host of the node file the count `%s`' \
                % (short(c, 60), short(cpn, 40))
    params = [p for p in fn.params if p != 'self']
    for c in calls_in(fn.node):
        n = smap.get(id(c))
        if n is None or n.id not in reach or not params or \
                call_name(c) != 'self._get_node_list' or not c.args:
            continue
        for stmt, rd in embedded_reads(fn, params[0], c.args[0]):
            m = smap.get(id(stmt))
            if m is not None and m.id in reach and \
                    isinstance(stmt, (ast.Assign, ast.AugAssign, ast.Call)):
                return '`%s` gives every host rm_info.%s' \
                    % (short(stmt, 60), '/'.join(sorted(rd)))
    return None


def r18_14(prog, rep, table, rid='R18.14'):
    rep.rule(rid, 'the raise by which a count-detecting helper refuses two or '
             'more distinct counts (it hands ONE count on) leaves '
             'init_from_scratch: a handler on its way which catches the type '
             're-raises that exception (message tests evaluated on the text '
             'raised), or nothing behind it sizes all hosts with one count',
             minimum=6)
    base = prog.cls(*RM)
    top = prog.method(RM[0], RM[1], '_init_from_scratch')
    memo = {}
    seen_sites = set()

    def escapes(fn, K, depth=0):
        """refusals which can leave fn: [(raise, type chain, msg, origin)]"""
        key = (fn.where, K.where)
        if key in memo:
            return memo[key]
        memo[key] = []
        out = []
        for r, texpr, msg in refusals_of(prog, fn):
            chain = _exc_chain(prog, fn.module, texpr)
            if chain is None:
                raise AnalysisError('UNRECOGNISED-IDIOM %s: exception type of '
                                    '`%s` does not resolve'
                                    % (fn.where, short(r, 60)))
            out.append((r, chain, msg, fn))
        if depth >= 4:
            memo[key] = out
            return out
        g = cfg_of(fn)
        smap = I.stmt_node_map(g)
        for c in calls_in(fn.node):
            cn = call_name(c)
            if not cn.startswith(('self.', 'super().', 'cls.')):
                continue
            callee = prog.resolve_call(fn, c, K)
            n = smap.get(id(c))
            if callee is None or callee is fn or n is None:
                continue
            for r, chain, msg, origin in escapes(callee, K, depth + 1):
                left = decide(fn, K, g, smap, c, n, r, chain, msg, origin)
                if left:
                    out.append((r, chain, msg, origin))
        memo[key] = out
        return out

    def decide(fn, K, g, smap, c, n, r, chain, msg, origin):
        """evaluate the handlers of fn around call node n for refusal r;
        True if the exception leaves fn"""
        site = (fn.where, c.lineno, c.col_offset, origin.where, r.lineno)
        first = site not in seen_sites
        seen_sites.add(site)
        what = '`%s` of %s' % (short(r, 60), origin.qual)
        for t in reversed(n.tries):
            if not any(x is c for s in t.body for x in ast.walk(s)):
                continue
            hit = None
            for h in t.handlers:
                if _catches(prog, fn, h, chain):
                    hit = h
                    break
            if hit is None:
                continue
            res = _HandlerEval(prog, fn, g, hit, chain, msg).run()
            if res[0] == 'unknown':
                raise AnalysisError(
                    'UNRECOGNISED-IDIOM %s: cannot evaluate `%s` of the '
                    'handler `except %s` for %s'
                    % (fn.where, short(res[1], 50),
                       short(hit.type, 40) if hit.type else '', what))
            if res[0] == 'raises':
                if res[1]:
                    continue                 # re-raised as it is: next try
                if first:
                    rep.ok(rid, fn, '%s: %s is turned into another exception '
                           'by `except %s` around `%s`'
                           % (K.name, what, short(hit.type, 40)
                              if hit.type else '', short(c, 40)), fn.loc(c))
                return False
            why = _imposes_count(prog, fn, K, g, smap, res[1])
            if why is None:
                if first:
                    rep.ok(rid, fn, '%s: %s is swallowed by `except %s`, '
                           'nothing behind it gives all hosts one count'
                           % (K.name, what, short(hit.type, 40)
                              if hit.type else ''), fn.loc(c))
                return False
            if first:
                rep.bad(rid, fn, '%s:refusal swallowed' % K.name,
                        '%s.%s: the handler `except %s` around `%s` completes '
                        'normally for the exception %s raises to refuse an '
                        'allocation with two or more different counts (`%s`'
                        '%s); behind the handler %s.  The refusal never '
                        'reaches the caller of init_from_scratch: the pilot '
                        'carries on and offers hosts with a core count the '
                        'batch system did not assign there, instead of '
                        'refusing the allocation'
                        % (K.name, fn.name, short(hit.type, 40)
                           if hit.type else '', short(c, 50), origin.qual,
                           short(r, 70), '' if msg[1] else ', text starting '
                           'with %r' % msg[0], why), fn.loc(hit),
                        history='PBSPro: qstat -f reports exec_vnode = '
                        '(vn1:ncpus=4)+(vn2:ncpus=2), cores_per_node: 4 '
                        'configured, $PBS_NODEFILE lists vn1, vn2: instead of '
                        '"detected vnodes of different sizes" the pilot offers '
                        'vn1 and vn2 with 4 cores each - 2 cores of vn2 were '
                        'never allocated')
            return False
        if first:
            rep.ok(rid, fn, '%s: %s reaches the caller of %s (call `%s`: %s)'
                   % (K.name, what, fn.name, short(c, 40),
                      'handlers around it re-raise it' if any(
                          any(x is c for s in t.body for x in ast.walk(s))
                          for t in n.tries) else 'no handler around it'),
                   fn.loc(c))
        return True

    n_ref = 0
    for name, K in sorted(table.items()):
        f = prog.find_method(K, 'init_from_scratch')
        if f is None or f.cls is base:
            continue                         # R18.1 reports
        n_ref += len(escapes(top, K))
    rep.stat('refusals_reaching_caller', n_ref)


# ------------------------------------------------------------------------------
# R18.12  the hardware-thread multiplier reaches the node tuples
#
# rm_info.threads_per_core (SMT) is the number of logical cores per physical
# core.  A resource manager which consults it (LSF compares the slot count of
# a host with it, PBSPro hands it to the parser) counts in logical cores; the
# node tuples it hands to _get_node_list must then carry the multiplier: as
# the argument of a parameter of _parse_nodefile from which the count of the
# returned tuples derives, or as a part of the count the RM puts into the
# tuples itself.
#
SMT_ATTR = 'threads_per_core'
LOG_RECV = ('self._log', 'self._prof', 'log', 'logger')


def _count_params(parser):
    """parameters of the node file parser from which the count element of the
    tuples it returns derives (data flow, also through the dict the counts
    are collected in)"""
    from ..flow import Deps
    params = [p for p in parser.params if p not in ('self', 'cls')]
    d = Deps(parser.node, implicit=False)
    out = set()
    for n in walk(parser.node):
        if isinstance(n, ast.Tuple) and len(n.elts) == 2 and \
                isinstance(n.ctx, ast.Load):
            dep = d.expr_depends(n.elts[1])
            out |= {p for p in params if p in dep}
    return out


def _in_log_call(f, node):
    for c in calls_in(f.node):
        cn = call_name(c)
        if any(cn.startswith(r + '.') for r in LOG_RECV) and any(
                x is node for a in list(c.args) + [k.value for k in c.keywords]
                for x in walk(a, nested=True)):
            return True
    return False


def r18_12(prog, rep, table, rid='R18.12'):
    rep.rule(rid, 'a resource manager which consults rm_info.threads_per_core '
             '(outside log statements) hands it to the builder of its node '
             'tuples: to a parameter of _parse_nodefile from which the slot '
             'count of the returned tuples derives, or into the count of the '
             'tuples it makes itself', minimum=2)
    base = prog.cls(*RM)
    seen = set()
    for name, K in sorted(table.items()):
        f = prog.find_method(K, 'init_from_scratch')
        if f is None or f.cls is base or f.where in seen:
            continue
        seen.add(f.where)
        params = [p for p in f.params if p != 'self']
        if not params:
            continue                                   # R18.1 reports
        var = params[0]
        reads = [n for n in walk(f.node)
                 if _info_attr(n, var) == SMT_ATTR and
                 isinstance(getattr(n, 'ctx', ast.Load()), ast.Load) and
                 not _in_log_call(f, n)]
        if not reads:
            continue
        rep.saw(f)
        smap = I.stmt_node_map(cfg_of(f))
        carried, parses, direct = [], [], False
        for c in calls_in(f.node):
            cn = call_name(c)
            if cn.endswith('._parse_nodefile'):
                parser = prog.resolve_call(f, c, K)
                if parser is None:
                    raise AnalysisError('%s: _parse_nodefile does not resolve '
                                        'for %s' % (f.where, K.name))
                if any(isinstance(a, ast.Starred) for a in c.args) or \
                        any(k.arg is None for k in c.keywords):
                    raise AnalysisError('UNRECOGNISED-IDIOM %s: `%s`'
                                        % (f.where, short(c, 60)))
                fp = _count_params(parser)
                parses.append((c, parser, fp))
                for p, v in bind_args(parser, c).items():
                    if p in fp and any(SMT_ATTR in rd for _, rd in
                                       embedded_reads(f, var, v)):
                        carried.append((c, p))
            elif cn == 'self._get_node_list':
                builder = prog.resolve_call(f, c, K)
                if builder is None:
                    continue
                for p, v in bind_args(builder, c).items():
                    if isinstance(v, ast.Name) and v.id == var:
                        continue
                    if any(SMT_ATTR in rd for _, rd in
                           embedded_reads(f, var, v)):
                        direct = True
        ok = bool(carried) or direct
        nofac = [p for c, p, fp in parses if not fp]
        why = ('the slot count %s returns derives from none of its parameters'
               % nofac[0].qual if nofac else
               'the node tuples come from %s, none of which is given it'
               % ', '.join('`%s`' % short(c, 50) for c, p, fp in parses)
               if parses else 'the node tuples are made without it')
        rep.check(ok, rid, f, '%s: rm_info.%s (read by `%s`) reaches the slot '
                  'count of the node tuples' % (K.name, SMT_ATTR,
                                                short(smap[id(reads[0])].ast
                                                      if id(reads[0]) in smap
                                                      else reads[0], 50)),
                  construct='%s:smt' % K.name,
                  message='%s.%s consults rm_info.%s (`%s`) but %s: the '
                  'entries of rm_info.node_list get one core per line of the '
                  'node file (physical cores) where the configured number of '
                  'logical cores (lines x threads per core) is expected, '
                  'cores_per_node is detected too small by the same factor, '
                  'and a comparison of the slot count with threads_per_core '
                  'compares different units'
                  % (K.name, f.name, SMT_ATTR,
                     short(smap[id(reads[0])].ast if id(reads[0]) in smap
                           else reads[0], 50), why), loc=f.loc(reads[0]),
                  history='%s with system_architecture.smt = 4, host file '
                  'with 6 lines per compute node: the entries have 6 cores '
                  'instead of 24, cores_per_node = 6' % K.name)


# ------------------------------------------------------------------------------
# R18.13  cursor tokenisers consume exactly the separator they searched for
#
# A loop which cuts a string into chunks with
#       idx = s.find(SEP) ; chunk = s[a:idx] ; s = s[idx + k:]
# drops, between two chunks, the k characters from the match on and the first
# `a` characters of the rest.  SEP is what was matched, so a + k == len(SEP):
# less leaves separator characters in the next chunk, more drops characters
# nobody looked at (the head of the next name).  The sum is what matters: the
# tree keeps the last character of ')+(' in the rest (k = 2) because the chunk
# slice starts behind the '(' (a = 1), as it has to for the first chunk.
#
SEARCH = ('find', 'index')


def _int_const(prog, f, e):
    v = prog.fold(f.module, e, f.cls)
    if isinstance(v, int) and not isinstance(v, bool):
        return v
    return None


def cursor_sites(prog, f):
    """[(find call, sep, [(a, chunk slice)], [(k, advance stmt)])] of f;
    raises Unrecognised for a cursor whose use cannot be read"""
    out = []
    for n in walk(f.node):
        if not (isinstance(n, ast.Assign) and len(n.targets) == 1 and
                isinstance(n.targets[0], ast.Name) and
                isinstance(n.value, ast.Call) and
                isinstance(n.value.func, ast.Attribute) and
                n.value.func.attr in SEARCH and
                isinstance(n.value.func.value, ast.Name) and
                len(n.value.args) == 1):
            continue
        idx, s = n.targets[0].id, n.value.func.value.id
        sep = n.value.args[0]
        if isinstance(sep, ast.Name):
            a = _local_alias(f, sep.id)
            sep = a if a is not None else sep
        sep = prog.fold(f.module, sep, f.cls)
        if len([d for d in walk(f.node) if isinstance(d, ast.Assign) and any(
                isinstance(t, ast.Name) and t.id == idx
                for t in d.targets)]) != 1:
            continue                       # several cursors share the name
        # slices of s bounded by idx (or by a local computed from it)
        cursor = {idx}
        grew = True
        while grew:
            grew = False
            for d in walk(f.node):
                if isinstance(d, ast.Assign) and len(d.targets) == 1 and \
                        isinstance(d.targets[0], ast.Name) and \
                        d.targets[0].id not in cursor and \
                        d.targets[0].id != s and \
                        names_in_expr(d.value) & cursor and \
                        _local_alias(f, d.targets[0].id) is d.value:
                    cursor.add(d.targets[0].id)
                    grew = True
        chunks, advances, other = [], [], []
        for m in walk(f.node):
            if not (isinstance(m, ast.Subscript) and
                    isinstance(m.value, ast.Name) and m.value.id == s and
                    isinstance(m.slice, ast.Slice) and
                    names_in_expr(m.slice) & cursor):
                continue
            sl = m.slice
            if sl.step is not None:
                other.append(m)
                continue

            def offset(e):
                """k of `idx + k` / `idx` / `k + idx` / `idx - k`"""
                if isinstance(e, ast.Name):
                    if e.id == idx:
                        return 0
                    al = _local_alias(f, e.id)
                    return offset(al) if al is not None else None
                if isinstance(e, ast.BinOp) and \
                        isinstance(e.op, (ast.Add, ast.Sub)):
                    l, r = offset(e.left), _int_const(prog, f, e.right)
                    if l is not None and r is not None:
                        return l + r if isinstance(e.op, ast.Add) else l - r
                    if isinstance(e.op, ast.Add):
                        l, r = _int_const(prog, f, e.left), offset(e.right)
                        if l is not None and r is not None:
                            return l + r
                return None

            if sl.upper is not None and sl.lower is None or \
                    sl.upper is not None and \
                    not names_in_expr(sl.lower) & cursor:
                # s[a:idx]
                a = 0 if sl.lower is None else _int_const(prog, f, sl.lower)
                if offset(sl.upper) != 0 or a is None or a < 0:
                    other.append(m)
                else:
                    chunks.append((a, m))
            elif sl.upper is None and sl.lower is not None:
                k = offset(sl.lower)
                if k is None:
                    other.append(m)
                else:
                    advances.append((k, m))
            else:
                other.append(m)
        if not chunks and not advances and not other:
            continue                       # the position is used otherwise
        if other or not isinstance(sep, str) or not chunks or not advances:
            raise Unrecognised('`%s` in %s: %s' % (
                short(n, 50), f.qual, 'slice `%s`' % short(other[0], 40)
                if other else 'separator is not a constant string'
                if not isinstance(sep, str) else 'no chunk / advance slice'))
        out.append((n, sep, chunks, advances))
    return out


def r18_13(prog, rep, table, rid='R18.13'):
    rep.rule(rid, 'a loop of a resource manager which cuts a string into '
             'chunks with idx = s.find(SEP); s[a:idx]; s = s[idx + k:] drops '
             'exactly the separator between two chunks: a + k == len(SEP)',
             minimum=0)
    base = prog.cls(*RM)
    n_sites = 0
    seen = set()
    for K in [base] + sorted(set(table.values()), key=lambda k: k.where):
        for mname, f in sorted(K.methods.items()):
            if f.where in seen:
                continue
            seen.add(f.where)
            try:
                sites = cursor_sites(prog, f)
            except Unrecognised as e:
                raise AnalysisError('UNRECOGNISED-IDIOM %s: cursor %s'
                                    % (f.where, e))
            for find, sep, chunks, advances in sites:
                rep.saw(f)
                n_sites += 1
                # a chunk which is cleaned afterwards may keep separator
                # characters: only "more than the separator" is decidable
                stripped = _post_stripped(f, chunks)
                for a, cm in chunks:
                    for k, am in advances:
                        ok = a + k == len(sep) or (stripped and
                                                   a + k < len(sep))
                        rep.check(ok, rid, f, '`%s` + `%s` drop the %d '
                                  'characters of %r' % (short(cm, 30),
                                                        short(am, 30),
                                                        len(sep), sep),
                                  construct='cursor:%s' % sep,
                                  message='%s searches for %r (%d characters) '
                                  'but between two chunks it drops %d: `%s` '
                                  'skips %d from the match on and `%s` skips '
                                  'the first %d of the rest.  %s - the names '
                                  'parsed from the second chunk on are not '
                                  'the names of the allocated nodes'
                                  % (f.qual, sep, len(sep), a + k,
                                     short(am, 40), k, short(cm, 40), a,
                                     'Every chunk after the first loses its '
                                     'first %d character(s)' % (a + k - len(sep))
                                     if a + k > len(sep) else
                                     'Every chunk after the first starts with '
                                     '%d character(s) of the separator'
                                     % (len(sep) - a - k)),
                                  loc=f.loc(am),
                                  history='PBSPro, exec_vnode = '
                                  '(x3001c0s1b0n0:ncpus=8)+(x3001c0s1b1n0:'
                                  'ncpus=8): the second node is offered as '
                                  '`3001c0s1b1n0`, which is not a host of the '
                                  'allocation')
    rep.stat('cursor_tokenisers', n_sites)


def _post_stripped(f, chunks):
    """is a chunk value cleaned by strip / lstrip / replace afterwards (as
    part of the slice expression, through the name it is bound to, or through
    a container it is put into)?"""
    clean = ('strip', 'lstrip', 'rstrip', 'replace', 'removeprefix',
             'removesuffix', 'sub')
    names = set()
    for n in walk(f.node):
        if isinstance(n, ast.Assign) and any(
                any(x is cm for x in walk(n.value)) for a, cm in chunks):
            for t in n.targets:
                names |= set(stores_of(t))
    changed = True
    while changed:
        before = len(names)
        names = _derived_names(f, names)
        for c in calls_in(f.node):
            if isinstance(c.func, ast.Attribute) and \
                    c.func.attr in SEQ_ADD and \
                    isinstance(c.func.value, ast.Name) and any(
                        names_in_expr(a) & names or any(
                            x is cm for x in walk(a) for _, cm in chunks)
                        for a in c.args):
                names.add(c.func.value.id)
        changed = len(names) != before
    for c in calls_in(f.node):
        if isinstance(c.func, ast.Attribute) and c.func.attr in clean:
            v = c.func.value
            if any(x is cm for a, cm in chunks for x in walk(v)):
                return True
            if names_in_expr(v) & names:
                return True
            if any(names_in_expr(a) & names for a in c.args) and \
                    c.func.attr == 'sub':
                return True
    return False


# ------------------------------------------------------------------------------
# R18.15   _parse_nodefile: the slot count of a name covers ALL its lines
#
def _parents(root):
    out = {}
    for n in walk(root, nested=True):
        for c in ast.iter_child_nodes(n):
            out[id(c)] = n
    return out


def _group_names(target):
    """(names bound to the key, names bound to the run) by the target of an
    iteration over itertools.groupby"""
    if isinstance(target, (ast.Tuple, ast.List)) and len(target.elts) == 2:
        return set(stores_of(target.elts[0])), set(stores_of(target.elts[1]))
    return set(), set(stores_of(target))


def run_counts(f, u):
    """places of f at which a value computed from a run of itertools.groupby
    over a sequence that is neither sorted nor keyed is stored under a key by
    OVERWRITE (dict comprehension, dict() of pairs, `d[k] = <run size>`): a
    later run of the same name replaces the count of the earlier one.
    -> [(ast node, description)]"""
    par = _parents(f.node)
    bad = []
    for c in calls_in(f.node, nested=True):
        if call_name(c).split('.')[-1] != 'groupby' or not c.args:
            continue
        if kwarg(c, 'key', 1) is not None:
            raise Unrecognised('groupby with a key function: %s' % short(c))
        if u.sorted_seq(c.args[0], c) or u.classify(c.args[0]) == 'keyed':
            continue
        p = par.get(id(c))
        while isinstance(p, ast.Call) and call_name(p) in PASS_THROUGH and \
                call_name(p) != 'enumerate':
            c, p = p, par.get(id(p))
        if isinstance(p, ast.comprehension) and p.iter is c:
            comp = par[id(p)]
            keys, grp = _group_names(p.target)
            if isinstance(comp, ast.DictComp):
                if names_in_expr(comp.value) & grp:
                    bad.append((comp, 'the dict comprehension `%s`'
                                % short(comp, 70)))
                continue
            pp = par.get(id(comp))
            if isinstance(pp, ast.Call) and call_name(pp) in KEYED_CTORS and \
                    any(a is comp for a in pp.args) and \
                    isinstance(comp.elt, (ast.Tuple, ast.List)) and \
                    len(comp.elt.elts) == 2 and \
                    names_in_expr(comp.elt.elts[1]) & grp:
                bad.append((pp, '`%s`' % short(pp, 70)))
            continue                   # a list of runs: decided by R18.5
        if isinstance(p, ast.For) and p.iter is c:
            keys, grp = _group_names(p.target)
            derived = set(grp)
            for _ in range(3):
                for n in walk(p):
                    if isinstance(n, ast.Assign) and \
                            names_in_expr(n.value) & derived:
                        for t in n.targets:
                            if isinstance(t, ast.Name):
                                derived.add(t.id)
            for k, target, stmt in I.stores(p):
                if k != 'assign' or not isinstance(target, ast.Subscript) or \
                        not names_in_expr(stmt.value) & derived:
                    continue
                cont = unparse(target.value)
                reads = {unparse(n) for n in walk(stmt.value)
                         if isinstance(n, (ast.Name, ast.Attribute))}
                if cont not in reads:
                    bad.append((stmt, '`%s` in the loop over the runs'
                                % short(stmt, 60)))
            continue
        raise Unrecognised('use of `%s`' % short(c, 60))
    return bad


def r18_15(prog, rep, table, rid='R18.15'):
    rep.rule(rid, 'the slot count _parse_nodefile keeps for a node name covers '
             'all lines of that name: a size taken from a run of '
             'itertools.groupby over lines which are neither sorted nor keyed '
             'is accumulated per name, never stored by overwrite', minimum=1)
    base = prog.cls(*RM)
    funcs = {}
    for K in [base] + sorted(table.values(), key=lambda k: k.where):
        f = prog.find_method(K, '_parse_nodefile')
        if f is not None:
            funcs[f.where] = f
    if not funcs:
        raise AnalysisError('anchor ResourceManager._parse_nodefile not found')
    for where, f in sorted(funcs.items()):
        rep.saw(f)
        try:
            bad = run_counts(f, Uniq(f))
        except Unrecognised as e:
            raise AnalysisError('UNRECOGNISED-IDIOM %s: cannot tell how the '
                                'runs of itertools.groupby are counted (%s)'
                                % (f.where, e))
        if not bad:
            rep.ok(rid, f, 'no per-name count is the size of a single run of '
                   'adjacent lines', f.loc())
        for node, text in bad:
            rep.bad(rid, f, 'runcount', '%s stores the size of a run of '
                    'ADJACENT equal lines (itertools.groupby over the unsorted '
                    'lines of the node file) under the node name by overwrite '
                    '(%s): when the lines of a host are not contiguous, the '
                    'last run replaces the earlier ones and the host is '
                    'offered with too few cores; cores_per_node is derived '
                    'from that count' % (f.qual, text), f.loc(node),
                    history='Torque / CCM / LSF node file with cyclic slot '
                    'order tn01 tn02 tn03 repeated 4 times (no cpn '
                    'override): every node gets 1 core instead of 4, '
                    'cores_per_node is 1')


# ------------------------------------------------------------------------------
# R18.16   _filter_nodes: a probed node is kept only when its probe returned 0
#
# The outcome of the `ssh <node> hostname` probe is <proc>.retcode: None (the
# process has not finished: the node hangs), 0 (answered) or non-zero (refused
# / killed).  One iteration of the loop which fills the list of accessible
# nodes is explored with the set of outcomes still possible as state: tests on
# the outcome refine it along their T / F edges, a call on the process
# (wait / cancel) makes every outcome possible again.
#
OUTCOME = 'retcode'
_N, _Z, _P = 'None', '0', 'non-zero'
_ALL = frozenset((_N, _Z, _P))
_UNK = object()


def _oc_eval(e, v, is_rc):
    """value of expression e when the outcome is v: a python constant for a
    known value, _P for 'some non-zero int', _UNK"""
    if is_rc(e):
        return {_N: None, _Z: 0, _P: _P}[v]
    if isinstance(e, ast.Constant):
        return e.value
    if isinstance(e, ast.UnaryOp) and isinstance(e.op, ast.Not):
        t = _oc_truth(e.operand, v, is_rc)
        return _UNK if t is None else not t
    if isinstance(e, ast.BoolOp):
        ts = [_oc_truth(x, v, is_rc) for x in e.values]
        if isinstance(e.op, ast.And):
            return False if any(t is False for t in ts) else \
                True if all(t is True for t in ts) else _UNK
        return True if any(t is True for t in ts) else \
            False if all(t is False for t in ts) else _UNK
    if isinstance(e, ast.Call) and call_name(e) == 'bool' and \
            len(e.args) == 1 and not e.keywords:
        t = _oc_truth(e.args[0], v, is_rc)
        return _UNK if t is None else t
    if isinstance(e, ast.Compare) and len(e.ops) == 1:
        op = e.ops[0]
        l = _oc_eval(e.left, v, is_rc)
        r = _oc_eval(e.comparators[0], v, is_rc)
        if isinstance(op, (ast.In, ast.NotIn)) and \
                isinstance(e.comparators[0], (ast.Tuple, ast.List, ast.Set)):
            rs = [_oc_eval(x, v, is_rc) for x in e.comparators[0].elts]
            if l is _UNK or any(x is _UNK or x is _P for x in rs):
                return _UNK
            if l is _P:
                if any(isinstance(x, int) and not isinstance(x, bool) and x
                       for x in rs):
                    return _UNK
                res = False
            else:
                res = any(x is l if l is None else
                          x is not None and x == l for x in rs)
            return res if isinstance(op, ast.In) else not res
        if l is _UNK or r is _UNK:
            return _UNK
        if isinstance(op, (ast.Is, ast.IsNot, ast.Eq, ast.NotEq)):
            pos = isinstance(op, (ast.Is, ast.Eq))
            if l is _P or r is _P:
                o = r if l is _P else l
                if o is _P:
                    return _UNK
                if o is None or isinstance(o, (int, float)) and o == 0 or \
                        not isinstance(o, (int, float)):
                    return not pos
                return _UNK
            if isinstance(op, (ast.Is, ast.IsNot)) and \
                    l is not None and r is not None:
                return _UNK
            return (l == r) == pos
        return _UNK
    return _UNK


def _oc_truth(e, v, is_rc):
    x = _oc_eval(e, v, is_rc)
    if x is _UNK:
        return None
    return True if x is _P else bool(x)


def probe_loops(f, g, smap):
    """[(list name, for-head cfg node, [append cfg nodes])]: lists assigned to
    <rm_info>.node_list which are filled in a loop whose body reads
    <x>.retcode"""
    out = []
    names = set()
    for kind, stmt in node_list_writes(f):
        if kind == 'assign' and isinstance(stmt, ast.Assign) and \
                isinstance(stmt.value, ast.Name):
            names.add(stmt.value.id)
    for name in sorted(names):
        per = {}
        for c in calls_in(f.node):
            if isinstance(c.func, ast.Attribute) and \
                    c.func.attr in ('append', 'add', 'insert') and \
                    isinstance(c.func.value, ast.Name) and \
                    c.func.value.id == name and id(c) in smap:
                sn = smap[id(c)]
                heads = [h for h in sn.loops if g.nodes[h].kind == 'for']
                if heads:
                    per.setdefault(heads[0], []).append(sn)
        for h, sites in sorted(per.items()):
            if any(isinstance(n, ast.Attribute) and n.attr == OUTCOME
                   for n in walk(g.nodes[h].ast)):
                out.append((name, g.nodes[h], sites))
    return out


def probe_comps(f):
    """[(list name, comprehension)]: lists assigned to <rm_info>.node_list
    which are a filtered comprehension reading <x>.retcode"""
    out = []
    names = set()
    for kind, stmt in node_list_writes(f):
        if kind == 'assign' and isinstance(stmt, ast.Assign) and \
                isinstance(stmt.value, ast.Name):
            names.add(stmt.value.id)
    for a in walk(f.node):
        if isinstance(a, ast.Assign) and len(a.targets) == 1 and \
                isinstance(a.targets[0], ast.Name) and \
                a.targets[0].id in names and \
                isinstance(a.value, ast.ListComp) and \
                len(a.value.generators) == 1 and any(
                    isinstance(n, ast.Attribute) and n.attr == OUTCOME
                    for n in walk(a.value, nested=True)):
            out.append((a.targets[0].id, a.value))
    return out


def r18_16(prog, rep, rid='R18.16'):
    from ..flow import reaching_defs, loop_slice, Exploration
    rep.rule(rid, '_filter_nodes keeps a probed node only on paths on which '
             'its `ssh <node> hostname` process is known to have returned 0: '
             'the tests on <proc>.retcode between the last wait() and the '
             'append, evaluated for None / 0 / non-zero, exclude the hanging '
             '(None) and the refusing (non-zero) node', minimum=1)
    f = prog.method(RM[0], RM[1], '_filter_nodes')
    rep.saw(f)
    g = cfg_of(f)
    smap = I.stmt_node_map(g)
    loops = probe_loops(f, g, smap)
    for name, head, sites in loops:
        body = g.loop_body[head.id]
        procs = {n.value.id for n in walk(head.ast)
                 if isinstance(n, ast.Attribute) and n.attr == OUTCOME and
                 isinstance(n.value, ast.Name)}
        if len(procs) != 1:
            raise AnalysisError('UNRECOGNISED-IDIOM %s: the probe outcome is '
                                'read from %s' % (f.where, sorted(procs) or
                                                  'no plain name'))
        proc = procs.pop()
        resets = set()
        for nid in body:
            n = g.nodes[nid]
            if n.kind != 'stmt' or n.ast is None:
                continue
            for c in calls_in(n.ast):
                if isinstance(c.func, ast.Attribute) and \
                        isinstance(c.func.value, ast.Name) and \
                        c.func.value.id == proc or any(
                            isinstance(a, ast.Name) and a.id == proc
                            for a in list(c.args) +
                            [k.value for k in c.keywords]):
                    resets.add(nid)

        def rc_at(at):
            def is_rc(e):
                if isinstance(e, ast.Attribute) and e.attr == OUTCOME and \
                        isinstance(e.value, ast.Name) and e.value.id == proc:
                    return True
                if isinstance(e, ast.Name):
                    defs = reaching_defs(g, e.id, at)
                    if len(defs) == 1 and defs[0][1] is not None and \
                            isinstance(defs[0][1], ast.Attribute) and \
                            defs[0][1].attr == OUTCOME and \
                            isinstance(defs[0][1].value, ast.Name) and \
                            defs[0][1].value.id == proc:
                        d = defs[0][0].id
                        for r in resets:
                            if r in g.reachable(d, skip_nodes={head.id}) and \
                                    at in g.reachable(r, skip_nodes={head.id}):
                                raise AnalysisError(
                                    'UNRECOGNISED-IDIOM %s: `%s` holds the '
                                    'outcome read before `%s` and is tested '
                                    'after it' % (f.where, e.id,
                                                  short(g.nodes[r].ast, 40)))
                        return True
                return False
            return is_rc

        # every test of the body which looks at the process must be decidable
        refine = {}
        for nid in body:
            n = g.nodes[nid]
            if n.kind != 'test':
                continue
            is_rc = rc_at(nid)
            about = proc in names_in_expr(n.ast) or any(
                isinstance(x, ast.Name) and is_rc(x) for x in walk(n.ast))
            if not about:
                continue
            tv = {v: _oc_truth(n.ast, v, is_rc) for v in _ALL}
            if any(t is None for t in tv.values()):
                raise AnalysisError('UNRECOGNISED-IDIOM %s: cannot evaluate '
                                    'the test `%s` for the outcomes None / 0 /'
                                    ' non-zero of the probe'
                                    % (f.where, short(n.ast, 60)))
            refine[nid] = tv
        site_ids = {sn.id for sn in sites}
        seen = {}

        def transfer(node, edge, st):
            if node.id in site_ids:
                seen.setdefault(node.id, set()).update(st)
            if edge.label == 'exc':
                return st
            if node.id in resets:
                return _ALL
            if node.id in refine and edge.label in 'TF':
                want = edge.label == 'T'
                st = frozenset(v for v in st if refine[node.id][v] is want)
                return st or None
            return st

        start, stop, stop_edge = loop_slice(g, head.id)
        Exploration(g, start, _ALL, transfer, stop=stop, stop_edge=stop_edge)
        for sn in sites:
            got = seen.get(sn.id, set())
            if not got:
                raise AnalysisError('UNRECOGNISED-IDIOM %s: `%s` is not '
                                    'reached within one iteration'
                                    % (f.where, short(sn.ast, 50)))
            wrong = sorted(got - {_Z})
            what = {_N: 'is still None (the ssh process hangs and survived '
                        'cancel(): the node does not answer)',
                    _P: 'is non-zero (ssh refused or was killed)'}
            rep.check(not wrong, rid, f, '`%s` is reached only with %s.%s == 0'
                      % (short(sn.ast, 40), proc, OUTCOME),
                      construct='probe:%s' % '/'.join(wrong),
                      message='%s reaches `%s` on a path on which %s.%s %s: '
                      'the tests between the last call on the process and the '
                      'append do not exclude that outcome (`not None` is '
                      'true), so a node which failed the accessibility check '
                      'is kept in %s, becomes rm_info.node_list and is '
                      'offered for task placement'
                      % (f.qual, short(sn.ast, 50), proc, OUTCOME,
                         ' or '.join(what[w] for w in wrong), name),
                      loc=f.loc(sn.ast),
                      history='pilot with backup_nodes > 0 on 5 nodes; the '
                      'probe of node 2 %s: node 2 stays in the node list and '
                      'gets tasks' % ('hangs, is cancelled and hangs again '
                                      '(retcode None after the second wait)'
                                      if _N in wrong else 'returns 255'))
            rep.check(_Z in got, rid, f, '`%s` is reached for an answering '
                      'node' % short(sn.ast, 40), construct='probe:never',
                      message='%s never reaches `%s` with %s.%s == 0: no '
                      'answering node is kept, the pilot ends with "no '
                      'accessible nodes found"' % (f.qual, short(sn.ast, 50),
                                                   proc, OUTCOME),
                      loc=f.loc(sn.ast), history='any pilot with backup '
                      'nodes')
    comps = probe_comps(f)
    for name, comp in comps:
        gen = comp.generators[0]

        def is_rc(e):
            return isinstance(e, ast.Attribute) and e.attr == OUTCOME and \
                isinstance(e.value, ast.Name) and \
                e.value.id in stores_of(gen.target)
        tv = {}
        for v in _ALL:
            ts = [_oc_truth(c, v, is_rc) for c in gen.ifs]
            tv[v] = False if any(t is False for t in ts) else \
                None if any(t is None for t in ts) else True
        if any(t is None for t in tv.values()):
            raise AnalysisError('UNRECOGNISED-IDIOM %s: cannot evaluate the '
                                'filter of `%s` for the outcomes None / 0 / '
                                'non-zero of the probe'
                                % (f.where, short(comp, 60)))
        wrong = sorted(v for v in tv if tv[v] and v != _Z)
        rep.check(not wrong and tv[_Z], rid, f, '`%s` keeps the nodes whose '
                  'probe returned 0' % short(comp, 50),
                  construct='probe:%s' % ('/'.join(wrong) or 'never'),
                  message='%s builds %s with `%s`, a filter which %s: a node '
                  'which failed the accessibility check becomes part of '
                  'rm_info.node_list and is offered for task placement'
                  % (f.qual, name, short(comp, 70),
                     'also passes when the %s is %s' % (
                         OUTCOME, ' or '.join(wrong)) if wrong else
                     'never passes for an answering node'),
                  loc=f.loc(comp), history='pilot with backup_nodes > 0; the '
                  'probe of one node hangs for good (retcode None) or '
                  'returns 255')
    if not loops and not comps:
        raise AnalysisError('UNRECOGNISED-IDIOM %s: no list assigned to '
                            'node_list is filled in a loop which reads '
                            '<proc>.%s' % (f.where, OUTCOME))


# ------------------------------------------------------------------------------
# R18.17   a compact host list becomes node names only through its expansion
#
# `nid[001-003],gpu-a3` (SLURM_NODELIST) is expanded by ru.get_hostlist.  A
# cheaper definition of the same name sequence is equal to the expansion only
# for strings its guards restrict accordingly: [s] needs "no ',' and no '['",
# s.split(',') needs "no '['".
#
EXPAND = 'get_hostlist'
HOSTLIST_META = (',', '[')


def _is_expand(e, raw=None):
    return isinstance(e, ast.Call) and \
        call_name(e).split('.')[-1] == EXPAND and e.args and \
        isinstance(e.args[0], ast.Name) and \
        (raw is None or e.args[0].id == raw)


def _absent_facts(e, pol, raw, out):
    """adds to `out` the characters test e, having truth `pol`, proves absent
    from the string `raw`; -> False when e looks at `raw` in a way which is
    not understood"""
    if raw not in names_in_expr(e):
        return True
    if isinstance(e, ast.Name):
        return True                                   # emptiness
    if isinstance(e, ast.UnaryOp) and isinstance(e.op, ast.Not):
        return _absent_facts(e.operand, not pol, raw, out)
    if isinstance(e, ast.BoolOp):
        decisive = isinstance(e.op, ast.And) == pol   # all operands have `pol`
        ok = True
        for v in e.values:
            ok &= _absent_facts(v, pol, raw, out if decisive else set())
        return ok
    if isinstance(e, ast.Compare) and len(e.ops) == 1:
        op, l, r = e.ops[0], e.left, e.comparators[0]
        if isinstance(op, (ast.Is, ast.IsNot, ast.Eq, ast.NotEq)) and \
                isinstance(l, ast.Name) and isinstance(r, ast.Constant) and \
                r.value in (None, ''):
            return True
        if isinstance(op, (ast.In, ast.NotIn)) and \
                isinstance(l, ast.Constant) and isinstance(l.value, str) and \
                isinstance(r, ast.Name) and r.id == raw:
            if isinstance(op, ast.NotIn) == pol and len(l.value) == 1:
                out.add(l.value)
            return True
    return False


def r18_17(prog, rep, table, rid='R18.17'):
    from ..flow import guard_atoms
    rep.rule(rid, 'the node names of a resource manager which expands a '
             'compact host list (ru.get_hostlist) are that expansion on every '
             'path: a cheaper definition of the same sequence from the raw '
             'string ([s], s.split(",")) is guarded so that the string holds '
             'no "," / "[" which the expansion would have resolved', minimum=1)
    n = 0
    for key, K in sorted(table.items(), key=lambda kv: str(kv[0])):
        f = prog.find_method(K, 'init_from_scratch')
        if f is None or not any(_is_expand(c) for c in calls_in(f.node)):
            continue
        rep.saw(f)
        g = cfg_of(f)
        smap = I.stmt_node_map(g)
        pairs = set()                   # (sequence variable, raw string name)
        for a in walk(f.node):
            if isinstance(a, ast.Assign) and _is_expand(a.value):
                for t in a.targets:
                    if isinstance(t, ast.Name):
                        pairs.add((t.id, a.value.args[0].id))
        for seq, raw in sorted(pairs):
            for a in walk(f.node):
                if not (isinstance(a, ast.Assign) and any(
                        isinstance(t, ast.Name) and t.id == seq
                        for t in a.targets)) or id(a) not in smap:
                    continue
                v = a.value
                if _is_expand(v, raw):
                    n += 1
                    rep.ok(rid, f, '`%s` is the expansion of `%s`'
                           % (seq, raw), f.loc(a))
                    continue
                if raw not in names_in_expr(v):
                    continue
                if isinstance(v, (ast.List, ast.Tuple)) and \
                        len(v.elts) == 1 and \
                        isinstance(v.elts[0], ast.Name) and \
                        v.elts[0].id == raw:
                    need, form = set(HOSTLIST_META), 'the one name `%s`'
                elif isinstance(v, ast.Call) and \
                        isinstance(v.func, ast.Attribute) and \
                        v.func.attr == 'split' and \
                        isinstance(v.func.value, ast.Name) and \
                        v.func.value.id == raw and len(v.args) == 1 and \
                        isinstance(v.args[0], ast.Constant) and \
                        v.args[0].value == ',':
                    need, form = {'['}, 'the pieces `%s`'
                else:
                    raise AnalysisError('UNRECOGNISED-IDIOM %s: `%s` derives '
                                        'the node names from the raw host '
                                        'list `%s`' % (f.where, short(a, 60),
                                                       raw))
                have, clear = set(), True
                dn = smap[id(a)]
                for atom, pol in guard_atoms(g, dn.id):
                    clear &= _absent_facts(atom, pol, raw, have)
                # a later test one side of which always re-defines the
                # sequence: the cheap value survives on the other side only
                others = {smap[id(b)].id for b in walk(f.node)
                          if isinstance(b, ast.Assign) and b is not a and
                          id(b) in smap and any(
                              isinstance(t, ast.Name) and t.id == seq
                              for t in b.targets)}
                for tid in sorted(g.reachable(dn.id, skip_nodes=others)):
                    tn = g.nodes[tid]
                    if tn.kind != 'test' or tid in others:
                        continue
                    for e in g.succ[tid]:
                        if e.label in ('T', 'F') and (
                                e.dst in others or
                                must_pass(g, e.dst, g.exit.id, others)):
                            clear &= _absent_facts(tn.ast, e.label != 'T',
                                                   raw, have)
                missing = sorted(need - have)
                if missing and not clear:
                    raise AnalysisError('UNRECOGNISED-IDIOM %s: a guard of '
                                        '`%s` looks at `%s` in a way I cannot '
                                        'evaluate' % (f.where, short(a, 60),
                                                      raw))
                n += 1
                rep.check(not missing, rid, f, '`%s` stands in for the '
                          'expansion only for strings without %s'
                          % (short(a, 50), ' and '.join(
                              repr(c) for c in sorted(need))),
                          construct='bypass:%s' % ''.join(missing),
                          message='%s takes %s as node names without expanding'
                          ' the host list, on a path whose guards do not '
                          'exclude %s in `%s`: such a string is a valid '
                          'compact node list of several hosts (`%s`), the '
                          'pilot gets ONE node named like the whole list (or '
                          'pieces of a range) instead of one entry per '
                          'allocated node, or dies on `requested_nodes <= '
                          'len(node_list)`'
                          % (f.qual, form % short(v, 40), ' and '.join(
                              repr(c) for c in missing), raw,
                             'gpu-a3,gpu-b7,gpu-c1' if ',' in missing
                             else 'nid[0010-0011,0014]'), loc=f.loc(a),
                          history='SLURM_JOB_NODELIST=gpu-a3,gpu-b7,gpu-c1 '
                          '(hosts enumerated without a range), pilot of 1 '
                          'node: node_list holds one node named '
                          "'gpu-a3,gpu-b7,gpu-c1'" if ',' in missing else
                          'SLURM_JOB_NODELIST=nid[0010-0011,0014]: names '
                          "'nid[0010-0011' and '0014]'")
    if not n:
        raise AnalysisError('UNRECOGNISED-IDIOM no resource manager assigns '
                            'the result of ru.%s to a local' % EXPAND)


# ------------------------------------------------------------------------------
#
def run(prog, rep, tier):
    rep.decided = ('every resource manager of the factory table obtains '
        'rm_info.node_list from _get_node_list on every path to its return '
        'and writes it nowhere else; _get_node_list makes one entry per node '
        'tuple with the enumerate() index, the tuple\'s name and core count, '
        'rm_info.gpus_per_node GPUs, all FREE; _filter_nodes cuts to '
        '[:requested_nodes] whenever the list is longer, moves agent/service '
        'nodes out by pop() and raises on an empty list after the last '
        'change; the registry receives the filtered RMInfo and instances '
        'initialised from the registry do not filter again; _parse_nodefile '
        'draws its result from a collection keyed by node name (one entry '
        'per distinct host whatever the order of the lines); the loops which '
        'mark blocked cores / GPUs DOWN range over the complete '
        'rm_info.node_list (no slice, filter, early exit or per-node skip) '
        'after the RM built it, and over the configured blocked list of the '
        'same kind; an RM which drops node-file entries by their slot count '
        '(LSF pseudo nodes) does not pass `cpn` to _parse_nodefile, so the '
        'test sees the counts detected in the file; the marking of blocked '
        'cores / GPUs is reached whenever the list of its kind is not empty; '
        '_get_cores_per_node refuses node tuples with different slot counts; '
        'the registry key written is the key read; an RM which consults '
        'threads_per_core hands it to a count-bearing parameter of the node file '
        'parser; the exec_vnode cursor loop drops exactly the separator it '
        'searched for between two chunks; the refusal of a non-uniform '
        'allocation (raise of a helper which hands on ONE count drawn from '
        'the set of detected counts) is re-raised by every handler between '
        'the helper and the caller of init_from_scratch; the marking of a '
        'blocked core / GPU does not use the variable of a loop which is '
        'already over; a run size of itertools.groupby over unsorted '
        'lines is never stored per name by overwrite; _filter_nodes '
        'keeps a probed node only on paths on which <proc>.retcode is 0 '
        '(None / 0 / non-zero explored over one iteration, wait() and '
        'cancel() reset the outcome); node names taken from the raw '
        'SLURM host list instead of ru.get_hostlist are guarded against '
        '"," and "[".')
    rep.undecided = ('slot counting and name syntax of node files for '
        'arbitrary contents (which names / counts mark an LSF login or batch '
        'node, PBSPro vnodes); that the batch system allocated '
        'requested+backup nodes; position of the marking relative to the '
        'registry write (decided under C01 R01.7).')
    rep.assumptions = [
        'the table of ResourceManager.get_manager is the complete set of '
        'resource managers (C17 checks that every shipped config names one '
        'of them)',
        'list.pop() / slicing semantics of python lists; the registry '
        'returns what was put (radical.utils, trusted)',
        'subclasses outside the package do not override _get_node_list, '
        '_filter_nodes or _init_from_scratch',
        '_filter_nodes may keep any node of the list it is given (with backup '
        'nodes it keeps every node which answers the ssh probe), so only a '
        'marking loop over the complete list covers what is offered',
        '`cpn` of _parse_nodefile supersedes the detected slot count of every '
        'host whenever it is true (its docstring; R18.7 checks that the '
        'parameter exists and is read)',
        'R18.14: exception classes named like builtins are the builtins; a '
        'handler is left normally only along its non-exception edges (a log '
        'call inside a handler does not raise); `finally: return` does not '
        'occur',
    ]
    table = rm_table(prog, rep)
    builders = r18_1(prog, rep, table)
    r18_2(prog, rep, builders)
    r18_3(prog, rep)
    r18_4(prog, rep, table)
    r18_5(prog, rep, table)
    rep.attempt(r18_15, prog, rep, table)
    rep.attempt(r18_16, prog, rep)
    rep.attempt(r18_17, prog, rep, table)
    rep.attempt(r18_6, prog, rep)
    rep.attempt(r18_7, prog, rep, table)
    rep.attempt(r18_8, prog, rep, table)
    rep.attempt(r18_10, prog, rep, table)
    rep.attempt(r18_12, prog, rep, table)
    rep.attempt(r18_13, prog, rep, table)
    rep.attempt(r18_14, prog, rep, table)
    if tier == 'thorough':
        # sweep: any other class in the package deriving from ResourceManager
        # (not in the table) obeys R18.1 as well
        base = prog.cls(*RM)
        extra = {k.name: k for k in prog.subclasses(base, strict=True)
                 if k not in table.values()}
        r18_1(prog, rep, extra, rid='R18.1s', minimum=0)
        rep.stat('sweep_classes', len(extra))


# ------------------------------------------------------------------------------
# self-test variants
#
_B   = 'agent/resource_manager/base.py'
_RMD = 'agent/resource_manager/'
_GNL = "        rm_info.node_list = self._get_node_list(nodes, rm_info)\n"
_CUT = "            rm_info.node_list   = rm_info.node_list[:rm_info.requested_nodes]\n"
_EMPTY = ("        # check if we can do any work\n"
          "        if not rm_info.node_list:\n"
          "            raise RuntimeError('ResourceManager has no nodes left to run tasks')\n")

_IMP  = "import math\nimport os\n"
_PNF  = ("            nodes = dict()\n"
         "            with ru.ru_open(fname, 'r') as fin:\n"
         "                for line in fin.readlines():\n"
         "                    node = line.strip()\n"
         "                    assert ' ' not in node\n"
         "                    if node in nodes: nodes[node] += 1\n"
         "                    else            : nodes[node]  = 1\n"
         "\n"
         "            if cpn:\n"
         "                for node in list(nodes.keys()):\n"
         "                    nodes[node] = cpn\n"
         "\n"
         "            # convert node dict into tuple list\n"
         "            return [(node, cpn * smt) for node, cpn in nodes.items()]\n")
_READ = ("            with ru.ru_open(fname, 'r') as fin:\n"
         "                lines = [line.strip() for line in fin]\n\n")


_MARK = ("            for node in rm_info.node_list:\n"
         "\n"
         "                for idx in blocked_cores:\n"
         "                    assert len(node['cores']) > idx\n"
         "                    node['cores'][idx] = rpc.DOWN\n"
         "\n"
         "                for idx in blocked_gpus:\n"
         "                    assert len(node['gpus']) > idx\n"
         "                    node['gpus'][idx] = rpc.DOWN\n")
_MARK_HEAD = "            for node in rm_info.node_list:\n\n                for idx in blocked_cores:\n"
_MARK_BODY = ("                for idx in blocked_cores:\n"
              "                    assert len(node['cores']) > idx\n"
              "                    node['cores'][idx] = rpc.DOWN\n"
              "\n"
              "                for idx in blocked_gpus:\n"
              "                    assert len(node['gpus']) > idx\n"
              "                    node['gpus'][idx] = rpc.DOWN\n")
_MARK_GPUS = ("\n"
              "                for idx in blocked_gpus:\n"
              "                    assert len(node['gpus']) > idx\n"
              "                    node['gpus'][idx] = rpc.DOWN\n")
_LSF      = _RMD + 'lsf.py'
_LSF_PARSE = "        nodes = self._parse_nodefile(hostfile, smt=smt)\n"
_LSF_FILT = ("        filtered = list()\n"
             "        for node in nodes:\n"
             "            if   'login' in node[0]: continue\n"
             "            elif 'batch' in node[0]: continue\n"
             "            elif smt     == node[1]: continue\n"
             "            filtered.append(node)\n"
             "\n"
             "        nodes = filtered\n")
_LSF_CPN  = ("        nodes = self._parse_nodefile(hostfile, cpn=rm_info.cores_per_node,\n"
             "                                               smt=smt)\n")
_LSF_HELPER = ("    def init_from_scratch(self, rm_info: RMInfo) -> RMInfo:\n\n        # LSF hostfile format:",
               "    @staticmethod\n"
               "    def _is_pseudo_node(node, smt) -> bool:\n"
               "        # login / batch node: marked by name or having one physical core only\n\n"
               "        return 'login' in node[0] or \\\n"
               "               'batch' in node[0] or \\\n"
               "               smt     == node[1]\n\n"
               "    def init_from_scratch(self, rm_info: RMInfo) -> RMInfo:\n\n        # LSF hostfile format:")
_LSF_COMP = ("        nodes = [node for node in nodes\n"
             "                      if not self._is_pseudo_node(node, smt)]\n")
_PBS_PARSE = ("            nodes = self._parse_nodefile(os.environ['PBS_NODEFILE'],\n"
              "                                         cpn=rm_info.cores_per_node,\n"
              "                                         smt=rm_info.threads_per_core)\n")
_COB_PARSE = "            nodes    = self._parse_nodefile(nodefile, rm_info.cores_per_node)\n"


_SLURM = _RMD + 'slurm.py'
_SL_CPN = ("        if not rm_info.cores_per_node:\n"
           "            # $SLURM_CPUS_ON_NODE = Number of physical cores per node\n"
           "            cpn_str = os.environ.get('SLURM_CPUS_ON_NODE')\n"
           "            if cpn_str is None:\n"
           "                raise RuntimeError('$SLURM_CPUS_ON_NODE not set')\n"
           "            rm_info.cores_per_node = int(cpn_str)\n\n")
_SL_GPU = ("        if not rm_info.gpus_per_node:\n"
           "            if os.environ.get('SLURM_GPUS_ON_NODE'):\n"
           "                rm_info.gpus_per_node = int(os.environ['SLURM_GPUS_ON_NODE'])\n"
           "            else:\n"
           "                # GPU IDs per node\n"
           "                # - global context: SLURM_JOB_GPUS and SLURM_STEP_GPUS\n"
           "                # - cgroup context: GPU_DEVICE_ORDINAL\n"
           "                gpu_ids = os.environ.get('SLURM_JOB_GPUS')  or \\\n"
           "                          os.environ.get('SLURM_STEP_GPUS') or \\\n"
           "                          os.environ.get('GPU_DEVICE_ORDINAL')\n"
           "                if gpu_ids:\n"
           "                    rm_info.gpus_per_node = len(gpu_ids.split(','))\n\n")
_SL_NODES = "        nodes = [(node, rm_info.cores_per_node) for node in node_names]\n\n"
_SL_TAIL  = _SL_NODES + _GNL
_SL_DEF   = "    def init_from_scratch(self, rm_info: RMInfo) -> RMInfo:\n\n        ru.write_json(rm_info, 'rm_info.json')\n"
_SL_HELPER = ("    def _detect_gpus(self, info):\n\n"
              "        if info.gpus_per_node:\n"
              "            return\n"
              "        if os.environ.get('SLURM_GPUS_ON_NODE'):\n"
              "            info.gpus_per_node = int(os.environ['SLURM_GPUS_ON_NODE'])\n"
              "            return\n"
              "        gpu_ids = os.environ.get('SLURM_JOB_GPUS')  or \\\n"
              "                  os.environ.get('SLURM_STEP_GPUS') or \\\n"
              "                  os.environ.get('GPU_DEVICE_ORDINAL')\n"
              "        if gpu_ids:\n"
              "            info.gpus_per_node = len(gpu_ids.split(','))\n\n\n"
              "    # --------------------------------------------------------------------------\n"
              "    #\n")
_B_GPN  = "        rm_info.gpus_per_node    = self._cfg.gpus_per_node\n"
_B_LFS  = "        rm_info.lfs_per_node     = self._cfg.lfs_size_per_node\n"
_B_CALL = "        rm_info = self.init_from_scratch(rm_info)\n"
_B_DEC  = "            rm_info.gpus_per_node  -= len(blocked_gpus)\n"
_FK_CPN = ("        if not rm_info.cores_per_node:\n"
           "            rm_info.cores_per_node = detected_cores\n\n")
_FK_NODES = ("        nodes   = [('localhost', rm_info.cores_per_node)\n"
             "                   for _ in range(n_nodes)]\n")

# round 4 -----------------------------------------------------------------------
_PBS = _RMD + 'pbspro.py'
_BLK_IF = "        if blocked_cores or blocked_gpus:\n"
_CPN_SET = "        cores_per_node = set([node[1] for node in nodes])\n"
_CPN_IF  = "        if len(cores_per_node) == 1:\n"
_CPN_BODY = ("        if len(cores_per_node) == 1:\n"
             "            cores_per_node = cores_per_node.pop()\n"
             "            self._log.debug('found %d [%d cores]', len(nodes), cores_per_node)\n"
             "            return cores_per_node\n"
             "\n"
             "        else:\n"
             "            raise ValueError('non-uniform node list, cores_per_node invalid')\n")
_REG_GET = "        rm_info = reg.get('rm.%s' % self.name.lower())\n"
_REG_PUT = "            reg.put('rm.%s' % self.name.lower(), rm_info.as_dict())\n"
_PNF_RET = "            return [(node, cpn * smt) for node, cpn in nodes.items()]\n"
_PBS_FIND  = "            idx = rhs.find(')+(')\n"
_PBS_CHUNK = "            node_str = rhs[1:idx]\n"
_PBS_ADV   = "            rhs = rhs[idx + 2:]\n"
_PBS_LOOP  = ("        while True:\n"
              "            idx = rhs.find(')+(')\n"
              "            node_str = rhs[1:idx]\n"
              "            nodes_list.append(node_str)\n"
              "            rhs = rhs[idx + 2:]\n"
              "            if idx < 0:\n"
              "                break\n")
_RES_BLOCKS = ("        if agent_nodes:\n"
               "\n"
               "            if not rm_info.agent_node_list:\n"
               "                for _ in range(agent_nodes):\n"
               "                    rm_info.agent_node_list.append(rm_info.node_list.pop())\n"
               "\n"
               "            assert agent_nodes == len(rm_info.agent_node_list)\n"
               "\n"
               "        if service_nodes:\n"
               "\n"
               "            if not rm_info.service_node_list:\n"
               "                for _ in range(service_nodes):\n"
               "                    rm_info.service_node_list.append(rm_info.node_list.pop())\n"
               "\n"
               "            assert service_nodes == len(rm_info.service_node_list)\n")

# round 5 -----------------------------------------------------------------------
_PBS_HND = ("            err_message = str(e)\n"
            "            if not err_message.startswith('qstat failed'):\n"
            "                raise\n"
            "            self._log.debug_1(err_message)\n")
_PBS_EXC = "        except RuntimeError as e:\n"
_PBS_FLT = "            if not err_message.startswith('qstat failed'):\n"
_PBS_REF = "            raise RuntimeError('detected vnodes of different sizes')\n"
_PBS_TRY = ("        try:\n"
            "            vnodes, rm_info.cores_per_node = self._parse_pbspro_vnodes()\n"
            "            nodes = [(node, rm_info.cores_per_node) for node in vnodes]\n")
_TRQ_CPN = "            rm_info.cores_per_node = self._get_cores_per_node(nodes)\n"

_PROBE = ("                if proc.retcode is not None:\n"
          "                    if not proc.retcode:\n"
          "                        ok.append(node)\n"
          "                else:\n")
_PROBE_AGAIN = ("                    if proc.retcode is None:\n"
                "                        self._log.warning('check node: %s [%s] timed out again',\n"
                "                                           name, [proc.stdout, proc.stderr])\n")

_SL_HOST = "        node_names = ru.get_hostlist(nodelist)\n"


def _res_helper(take="rm_info.node_list.pop()"):
    return ("        def _reserve(reserved, n_nodes) -> None:\n"
            "\n"
            "            if not n_nodes:\n"
            "                return\n"
            "\n"
            "            if not reserved:\n"
            "                for _ in range(n_nodes):\n"
            "                    reserved.append(%s)\n"
            "\n"
            "            assert n_nodes == len(reserved)\n"
            "\n"
            "        _reserve(rm_info.agent_node_list,   agent_nodes)\n"
            "        _reserve(rm_info.service_node_list, service_nodes)\n" % take)


MUTATIONS = [
    dict(name='R18.1 Debug RM builds the list by hand, all indices 0', rules=('R18.1',), edits=[
        (_RMD + 'debug.py', _GNL,
         "        rm_info.node_list = [{'name': n[0], 'index': 0,\n"
         "                              'cores': [None] * n[1], 'gpus': [],\n"
         "                              'lfs': 0, 'mem': 0} for n in nodes]\n")]),
    dict(name='R18.1 Slurm RM appends a node to the built list', rules=('R18.1',), edits=[
        (_RMD + 'slurm.py', _GNL, _GNL + "        rm_info.node_list.append(dict(rm_info.node_list[0]))\n")]),
    dict(name='R18.1 Torque RM assigns the list only for a non-empty node file', rules=('R18.1',), edits=[
        (_RMD + 'torque.py', _GNL, "        if nodes:\n    " + _GNL)]),
    dict(name='R18.1 Cobalt RM builds the list against a fresh RMInfo', rules=('R18.1',), edits=[
        (_RMD + 'cobalt.py', _GNL, "        rm_info.node_list = self._get_node_list(nodes, RMInfo())\n")]),
    dict(name='R18.1 CCM RM forgets to return the RMInfo', rules=('R18.1',), edits=[
        (_RMD + 'ccm.py', _GNL + "\n        return rm_info\n", _GNL)]),
    dict(name='R18.1 Yarn RM no longer delegates to Fork', rules=('R18.1',), edits=[
        (_RMD + 'yarn.py', "        super().init_from_scratch(rm_info)\n", "")]),
    dict(name='R18.1 LSF RM renumbers the nodes from 1 after building', rules=('R18.1',), edits=[
        (_RMD + 'lsf.py', _GNL, _GNL + "        for node in rm_info.node_list:\n            node['index'] += 1\n"
                                       "        rm_info.node_list = sorted(rm_info.node_list, key=lambda n: n['name'])\n")]),
    dict(name='R18.1 PBSPro RM returns a copy made before the list exists', rules=('R18.1',), edits=[
        (_RMD + 'pbspro.py', "        nodes = None\n\n        try:", "        orig  = RMInfo(rm_info)\n        nodes = None\n\n        try:"),
        (_RMD + 'pbspro.py', _GNL + "\n        return rm_info\n", _GNL + "\n        return orig\n")]),
    dict(name='R18.2 constant node index', rules=('R18.2',), edits=[
        (_B, "                      'index' : idx,", "                      'index' : 0,")]),
    dict(name='R18.2 first node dropped from the enumeration', rules=('R18.2',), edits=[
        (_B, "                     for idx, node in enumerate(nodes)]", "                     for idx, node in enumerate(nodes[1:])]")]),
    dict(name='R18.2 index taken from the core count', rules=('R18.2',), edits=[
        (_B, "                      'index' : idx,", "                      'index' : node[1],")]),
    dict(name='R18.2 GPU vector sized by the core count', rules=('R18.2',), edits=[
        (_B, "                      'gpus'  : [rpc.FREE] * rm_info.gpus_per_node,", "                      'gpus'  : [rpc.FREE] * node[1],")]),
    dict(name='R18.2 core vector sized by cores_per_node of the config', rules=('R18.2',), edits=[
        (_B, "                      'cores' : [rpc.FREE] * node[1],", "                      'cores' : [rpc.FREE] * rm_info.cores_per_node,")],
         note='node tuples carry cpn * smt (LSF, PBSPro nodefile): rm_info.cores_per_node is not the size of the node'),
    dict(name='R18.2 core vector initialised BUSY', rules=('R18.2',), edits=[
        (_B, "                      'cores' : [rpc.FREE] * node[1],", "                      'cores' : [rpc.BUSY] * node[1],")]),
    dict(name='R18.2 nodes with the same name filtered from the list', rules=('R18.2',), edits=[
        (_B, "                     for idx, node in enumerate(nodes)]", "                     for idx, node in enumerate(nodes)\n                     if node[0] != 'localhost' or not idx]")]),
    dict(name='R18.3 reduction slice dropped', rules=('R18.3',), edits=[
        (_B, _CUT, "")]),
    dict(name='R18.3 reduction keeps the tail instead of the head', rules=('R18.3',), edits=[
        (_B, _CUT, "            rm_info.node_list   = rm_info.node_list[rm_info.requested_nodes:]\n")]),
    dict(name='R18.3 reduction keeps the backup nodes', rules=('R18.3',), edits=[
        (_B, _CUT, "            rm_info.node_list   = rm_info.node_list[:rm_info.requested_nodes + rm_info.backup_nodes]\n")]),
    dict(name='R18.3 reduction guard reversed', rules=('R18.3',), edits=[
        (_B, "        if len(rm_info.node_list) > rm_info.requested_nodes:", "        if len(rm_info.node_list) < rm_info.requested_nodes:")]),
    dict(name='R18.3 reduction only when backup nodes were requested', rules=('R18.3',), edits=[
        (_B, "        if len(rm_info.node_list) > rm_info.requested_nodes:", "        if rm_info.backup_nodes and len(rm_info.node_list) > rm_info.requested_nodes:")]),
    dict(name='R18.3 agent node copied, not moved', rules=('R18.3',), edits=[
        (_B, "                    rm_info.agent_node_list.append(rm_info.node_list.pop())", "                    rm_info.agent_node_list.append(rm_info.node_list[-1])")]),
    dict(name='R18.3 service node taken from the agent nodes', rules=('R18.3',), edits=[
        (_B, "                    rm_info.service_node_list.append(rm_info.node_list.pop())", "                    rm_info.service_node_list.append(rm_info.agent_node_list.pop())")]),
    dict(name='R18.3 emptiness check removed', rules=('R18.3',), edits=[
        (_B, _EMPTY, "")]),
    dict(name='R18.3 emptiness check before the reservation', rules=('R18.3',), edits=[
        (_B, _EMPTY, ""),
        (_B, "        agent_nodes   = 0\n        service_nodes = 0\n", "        agent_nodes   = 0\n        service_nodes = 0\n\n" + _EMPTY)]),
    dict(name='R18.3 emptiness check tests for None', rules=('R18.3',), edits=[
        (_B, "        if not rm_info.node_list:\n            raise RuntimeError('ResourceManager has no nodes left", "        if rm_info.node_list is None:\n            raise RuntimeError('ResourceManager has no nodes left")]),
    dict(name='R18.3 empty list only logged', rules=('R18.3',), edits=[
        (_B, "            raise RuntimeError('ResourceManager has no nodes left to run tasks')", "            self._log.error('ResourceManager has no nodes left to run tasks')")]),
    dict(name='R18.4 registry written before filtering', rules=('R18.4',), edits=[
        (_B, "        self._filter_nodes(rm_info)\n\n        # add launch method", "        # add launch method"),
        (_B, "            reg.put('rm.%s' % self.name.lower(), rm_info.as_dict())\n", "            reg.put('rm.%s' % self.name.lower(), rm_info.as_dict())\n            self._filter_nodes(rm_info)\n")]),
    dict(name='R18.4 filtering only when backup nodes exist', rules=('R18.4',), edits=[
        (_B, "        self._filter_nodes(rm_info)\n\n        # add launch method", "        if rm_info.backup_nodes:\n            self._filter_nodes(rm_info)\n\n        # add launch method")]),
    dict(name='R18.4 registry written on both paths', rules=('R18.4',), edits=[
        (_B, "            reg.put('rm.%s' % self.name.lower(), rm_info.as_dict())\n\n        reg.close()", "        reg.put('rm.%s' % self.name.lower(), rm_info.as_dict())\n        reg.close()")]),
    dict(name='R18.4 registry read path filters again', rules=('R18.4',), edits=[
        (_B, "            rm_info = RMInfo(rm_info)\n            rm_info.verify()\n", "            rm_info = RMInfo(rm_info)\n            self._filter_nodes(rm_info)\n            rm_info.verify()\n")]),
    dict(name='R18.4 Fork RM filters its own list as well', rules=('R18.4',), edits=[
        (_RMD + 'fork.py', _GNL, _GNL + "        self._filter_nodes(rm_info)\n")]),
    dict(name='R18.4 registry receives a fresh RMInfo', rules=('R18.4',), edits=[
        (_B, "            reg.put('rm.%s' % self.name.lower(), rm_info.as_dict())", "            reg.put('rm.%s' % self.name.lower(), RMInfo().as_dict())")]),
    dict(name='R18.4 only the scratch path sets self.info', rules=('R18.4',), edits=[
        (_B, "            reg.put('rm.%s' % self.name.lower(), rm_info.as_dict())\n\n        reg.close()\n        self._set_info(rm_info)\n", "            reg.put('rm.%s' % self.name.lower(), rm_info.as_dict())\n            self._set_info(rm_info)\n\n        reg.close()\n")]),
    dict(name='R18.4 RM list rebuilt after filtering', rules=('R18.4',), edits=[
        (_B, "        # add launch method information to rm_info\n", "        rm_info = self.init_from_scratch(rm_info)\n        # add launch method information to rm_info\n")]),
    dict(name='R18.5 slots counted per adjacent block with groupby (seed C18-b)', rules=('R18.5',), edits=[
        (_B, _IMP, "import itertools\n" + _IMP),
        (_B, _PNF, _READ +
         "            # all slots of a node are listed in one block: count block sizes\n"
         "            nodes = list()\n"
         "            for node, slots in itertools.groupby(lines):\n"
         "                assert ' ' not in node\n"
         "                nodes.append((node, cpn or len(list(slots))))\n\n"
         "            return [(node, slots * smt) for node, slots in nodes]\n")]),
    dict(name='R18.5 groupby over the raw lines inside the returned comprehension', rules=('R18.5',), edits=[
        (_B, _IMP, "import itertools\n" + _IMP),
        (_B, _PNF, _READ +
         "            return [(node, (cpn or len(list(grp))) * smt)\n"
         "                    for node, grp in itertools.groupby(lines)]\n")]),
    dict(name='R18.5 one tuple per line when cpn is given', rules=('R18.5',), edits=[
        (_B, _PNF, _READ +
         "            if cpn:\n"
         "                # one line per node: every line is a node\n"
         "                return [(node, cpn * smt) for node in lines]\n\n"
         "            nodes = dict()\n"
         "            for node in lines:\n"
         "                nodes[node] = nodes.get(node, 0) + 1\n"
         "            return [(node, cnt * smt) for node, cnt in nodes.items()]\n")]),
    dict(name='R18.5 counts kept in a dict but the result follows the lines', rules=('R18.5',), edits=[
        (_B, "            return [(node, cpn * smt) for node, cpn in nodes.items()]\n",
             "            return [(line.strip(), nodes[line.strip()] * smt)\n"
             "                    for line in ru.ru_open(fname, 'r').readlines()]\n")]),
    dict(name='R18.5 groupby after sorting a different list', rules=('R18.5',), edits=[
        (_B, _IMP, "import itertools\n" + _IMP),
        (_B, _PNF, _READ +
         "            names = sorted(set(lines))\n"
         "            self._log.debug('hosts: %s', names)\n"
         "            nodes = list()\n"
         "            for node, slots in itertools.groupby(lines):\n"
         "                nodes.append((node, cpn or len(list(slots))))\n\n"
         "            return [(node, slots * smt) for node, slots in nodes]\n")]),
    dict(name='R18.15 dict comprehension over groupby of the unsorted lines (seed C18-i4)', rules=('R18.15',), edits=[
        (_B, _IMP, "import itertools\n" + _IMP),
        (_B, _PNF, _READ +
         "            assert not any(' ' in line for line in lines)\n"
         "            nodes = {node: len(list(slots))\n"
         "                     for node, slots in itertools.groupby(lines)}\n\n"
         "            if cpn:\n"
         "                for node in list(nodes.keys()):\n"
         "                    nodes[node] = cpn\n\n"
         "            return [(node, cpn * smt) for node, cpn in nodes.items()]\n")]),
    dict(name='R18.15 run sizes stored by plain assignment in a loop over groupby', rules=('R18.15',), edits=[
        (_B, _IMP, "import itertools\n" + _IMP),
        (_B, _PNF, _READ +
         "            nodes = dict()\n"
         "            for node, slots in itertools.groupby(lines):\n"
         "                n_slots = len(list(slots))\n"
         "                nodes[node] = n_slots\n\n"
         "            if cpn:\n"
         "                for node in list(nodes.keys()):\n"
         "                    nodes[node] = cpn\n\n"
         "            return [(node, cpn * smt) for node, cpn in nodes.items()]\n")]),
    dict(name='R18.15 dict() of (name, run size) pairs from groupby', rules=('R18.15',), edits=[
        (_B, _IMP, "from itertools import groupby\n" + _IMP),
        (_B, _PNF, _READ +
         "            nodes = dict((name, sum(1 for _ in grp))\n"
         "                         for name, grp in groupby(lines))\n\n"
         "            if cpn:\n"
         "                for node in list(nodes.keys()):\n"
         "                    nodes[node] = cpn\n\n"
         "            return [(node, cpn * smt) for node, cpn in nodes.items()]\n")]),
    dict(name='R18.16 nested retcode test flattened, None counted as success (seed C18-i6)', rules=('R18.16',), edits=[
        (_B, _PROBE, "                if proc.retcode is None:\n"),
        (_B, _PROBE_AGAIN, _PROBE_AGAIN + "\n                if not proc.retcode:\n                    ok.append(node)\n")]),
    dict(name='R18.16 accessible list as a comprehension which keeps every falsy return code', rules=('R18.16',), edits=[
        (_B, _PROBE, "                if proc.retcode is not None:\n                    pass\n                else:\n"),
        (_B, "            self._log.warning('using %d nodes out of %d', len(ok), len(procs))\n",
             "            ok = [node for name, proc, node in procs if not proc.retcode]\n"
             "            self._log.warning('using %d nodes out of %d', len(ok), len(procs))\n")]),
    dict(name='R18.16 outer test of the probe outcome dropped', rules=('R18.16',), edits=[
        (_B, _PROBE, "                if not proc.retcode:\n                    ok.append(node)\n                else:\n")]),
    dict(name='R18.16 node kept when the probe returned anything', rules=('R18.16',), edits=[
        (_B, _PROBE, "                if proc.retcode is not None:\n                    ok.append(node)\n                else:\n")]),
    dict(name='R18.16 polarity of the return code test inverted', rules=('R18.16',), edits=[
        (_B, _PROBE, "                if proc.retcode is not None:\n                    if proc.retcode:\n"
                     "                        ok.append(node)\n                else:\n")]),
    dict(name='R18.16 and replaced by or in the combined outcome test', rules=('R18.16',), edits=[
        (_B, _PROBE, "                if proc.retcode is not None or not proc.retcode:\n"
                     "                    ok.append(node)\n                if proc.retcode is None:\n")]),
    dict(name='R18.17 Slurm: plain-host fast path guarded by the missing bracket only (seed C18-i5)', rules=('R18.17',), edits=[
        (_SLURM, _SL_HOST, "        if '[' in nodelist:\n            node_names = ru.get_hostlist(nodelist)\n"
                           "        else:\n            # plain host name, nothing to expand\n            node_names = [nodelist]\n")]),
    dict(name='R18.17 Slurm: fast path splits at commas whenever there is one', rules=('R18.17',), edits=[
        (_SLURM, _SL_HOST, "        if ',' in nodelist:\n            node_names = nodelist.split(',')\n"
                           "        else:\n            node_names = ru.get_hostlist(nodelist)\n")]),
    dict(name='R18.17 Slurm: single-name shortcut in early form, guard on the comma only', rules=('R18.17',), edits=[
        (_SLURM, _SL_HOST, "        node_names = [nodelist]\n        if ',' in nodelist:\n            node_names = ru.get_hostlist(nodelist)\n")]),
    dict(name='R18.17 Slurm: fast path guard joined with or instead of and', rules=('R18.17',), edits=[
        (_SLURM, _SL_HOST, "        if '[' not in nodelist or ',' not in nodelist:\n            node_names = [nodelist]\n"
                           "        else:\n            node_names = ru.get_hostlist(nodelist)\n")]),
    dict(name='R18.6 blocked resources marked on the first requested_nodes nodes only (seed C18-d)', rules=('R18.6',), edits=[
        (_B, _MARK_HEAD, "            # only the nodes we are going to use need to be touched\n"
                         "            for node in rm_info.node_list[:rm_info.requested_nodes]:\n\n                for idx in blocked_cores:\n")]),
    dict(name='R18.6 marking loop leaves at the requested size', rules=('R18.6',), edits=[
        (_B, _MARK_HEAD, "            for i, node in enumerate(rm_info.node_list):\n\n"
                         "                if i >= rm_info.requested_nodes:\n                    break\n\n                for idx in blocked_cores:\n")]),
    dict(name='R18.6 marking over a filtered copy of the list', rules=('R18.6',), edits=[
        (_B, _MARK_HEAD, "            used = [n for n in rm_info.node_list\n"
                         "                      if n['index'] < rm_info.requested_nodes + rm_info.backup_nodes]\n"
                         "            for node in used:\n\n                for idx in blocked_cores:\n")]),
    dict(name='R18.6 marking by index over range(requested_nodes)', rules=('R18.6',), edits=[
        (_B, _MARK_HEAD, "            for i in range(rm_info.requested_nodes):\n\n"
                         "                node = rm_info.node_list[i]\n\n                for idx in blocked_cores:\n")]),
    dict(name='R18.6 nodes beyond the requested size skipped inside the loop', rules=('R18.6',), edits=[
        (_B, _MARK_HEAD, "            for node in rm_info.node_list:\n\n"
                         "                if node['index'] >= rm_info.requested_nodes:\n                    continue\n\n                for idx in blocked_cores:\n")]),
    dict(name='R18.6 GPUs marked in a second loop over the head of the list', rules=('R18.6',), edits=[
        (_B, _MARK_GPUS, "\n            for node in rm_info.node_list[:rm_info.requested_nodes]:\n" + _MARK_GPUS)]),
    dict(name='R18.6 marking loop stops after the first node', rules=('R18.6',), edits=[
        (_B, _MARK_GPUS, _MARK_GPUS + "\n                if not rm_info.backup_nodes:\n                    break\n")]),
    dict(name='R18.6 GPU marking loop dedented out of the node loop, stale loop variable (seed C18-i3)', rules=('R18.6',), edits=[
        (_B, _MARK_GPUS, "\n            for idx in blocked_gpus:\n                assert len(node['gpus']) > idx\n"
                         "                node['gpus'][idx] = rpc.DOWN\n")]),
    dict(name='R18.6 core marking moved behind the node loop, stale loop variable', rules=('R18.6',), edits=[
        (_B, _MARK, "            for node in rm_info.node_list:\n\n"
                    "                for idx in blocked_gpus:\n                    assert len(node['gpus']) > idx\n"
                    "                    node['gpus'][idx] = rpc.DOWN\n\n"
                    "            for idx in blocked_cores:\n                assert len(node['cores']) > idx\n"
                    "                node['cores'][idx] = rpc.DOWN\n")]),
    dict(name='R18.6 GPU marking in the else clause of the node loop', rules=('R18.6',), edits=[
        (_B, _MARK_GPUS, "\n            else:\n                for idx in blocked_gpus:\n                    assert len(node['gpus']) > idx\n"
                         "                    node['gpus'][idx] = rpc.DOWN\n")]),
    dict(name='R18.6 GPU marking walks the blocked core indices', rules=('R18.6',), edits=[
        (_B, "                for idx in blocked_gpus:\n                    assert len(node['gpus']) > idx\n",
             "                for idx in blocked_cores:\n                    assert len(node['gpus']) > idx\n")]),
    dict(name='R18.6 blocked cores written FREE', rules=('R18.6',), edits=[
        (_B, "                    node['cores'][idx] = rpc.DOWN\n", "                    node['cores'][idx] = rpc.FREE\n")]),
    dict(name='R18.7 LSF hands cores_per_node to the host file parser (seed C18-c)', rules=('R18.7',), edits=[
        (_LSF, _LSF_PARSE, _LSF_CPN)]),
    dict(name='R18.7 LSF passes cores_per_node positionally', rules=('R18.7',), edits=[
        (_LSF, _LSF_PARSE, "        nodes = self._parse_nodefile(hostfile, rm_info.cores_per_node, smt)\n")]),
    dict(name='R18.7 LSF passes cpn through a local with a default', rules=('R18.7',), edits=[
        (_LSF, _LSF_PARSE, "        cpn   = rm_info.cores_per_node or 0\n        nodes = self._parse_nodefile(hostfile, cpn, smt=smt)\n")]),
    dict(name='R18.7 cpn passed, pseudo nodes filtered by a helper in a comprehension', rules=('R18.7',), edits=[
        (_LSF, _LSF_PARSE, _LSF_CPN),
        (_LSF, _LSF_HELPER[0], _LSF_HELPER[1]),
        (_LSF, _LSF_FILT, _LSF_COMP)]),
    dict(name='R18.7 cpn passed, slot count unpacked into a local before the test', rules=('R18.7',), edits=[
        (_LSF, _LSF_PARSE, _LSF_CPN),
        (_LSF, _LSF_FILT, "        filtered = list()\n        for node in nodes:\n            name, slots = node\n"
                          "            pseudo = 'login' in name or 'batch' in name or slots == smt\n"
                          "            if not pseudo:\n                filtered.append(node)\n\n        nodes = filtered\n")]),
    dict(name='R18.7 LSF overwrites the detected counts itself before the filter', rules=('R18.7',), edits=[
        (_LSF, _LSF_PARSE, _LSF_PARSE +
         "        if rm_info.cores_per_node:\n"
         "            nodes = [(name, rm_info.cores_per_node * smt) for name, _ in nodes]\n")]),
    dict(name='R18.7 LSF overwrites the detected counts in a loop before the filter', rules=('R18.7',), edits=[
        (_LSF, _LSF_PARSE, _LSF_PARSE +
         "        if rm_info.cores_per_node:\n"
         "            fixed = list()\n"
         "            for name, _ in nodes:\n"
         "                fixed.append((name, rm_info.cores_per_node * smt))\n"
         "            nodes = fixed\n")]),
    dict(name='R18.7 PBSPro drops one-slot entries of a node file parsed with cpn', rules=('R18.7',), edits=[
        (_RMD + 'pbspro.py', _PBS_PARSE, _PBS_PARSE +
         "            # drop service entries which are listed with one slot\n"
         "            nodes = [n for n in nodes if n[1] > (rm_info.threads_per_core or 1)]\n")]),
    dict(name='R18.8 seed C18-f: Slurm builds the node list before the GPUs per node are discovered', rules=('R18.8',), edits=[
        (_SLURM, _SL_GPU + _SL_TAIL, _SL_TAIL + "\n" + _SL_GPU)]),
    dict(name='R18.8 Slurm builds the list into a temporary before GPU discovery, stores it at the end', rules=('R18.8',), edits=[
        (_SLURM, _SL_GPU + _SL_TAIL,
         _SL_NODES + "        node_list = self._get_node_list(nodes, rm_info)\n\n" + _SL_GPU +
         "        rm_info.node_list = node_list\n")]),
    dict(name='R18.8 Slurm makes the node tuples before the cores per node are detected', rules=('R18.8',), edits=[
        (_SLURM, _SL_CPN, _SL_NODES + _SL_CPN),
        (_SLURM, _SL_TAIL, _GNL)]),
    dict(name='R18.8 Slurm GPU discovery moved into a helper which is called after the list is built', rules=('R18.8',), edits=[
        (_SLURM, "    def init_from_scratch(self, rm_info: RMInfo) -> RMInfo:\n", _SL_HELPER + "    def init_from_scratch(self, rm_info: RMInfo) -> RMInfo:\n"),
        (_SLURM, _SL_GPU + _SL_TAIL, _SL_TAIL + "        self._detect_gpus(rm_info)\n")]),
    dict(name='R18.8 Fork makes the node tuples (through a local) before the detected cores are stored', rules=('R18.8',), edits=[
        (_RMD + 'fork.py', _FK_CPN, "        cpn = rm_info.cores_per_node\n" + _FK_CPN),
        (_RMD + 'fork.py', _FK_NODES, "        nodes   = list()\n        for _ in range(n_nodes):\n            nodes.append(('localhost', cpn))\n")]),
    dict(name='R18.8 CCM reads the GPU count from the environment after the list is built', rules=('R18.8',), edits=[
        (_RMD + 'ccm.py', _GNL, _GNL + "\n        if not rm_info.gpus_per_node:\n            rm_info['gpus_per_node'] = int(os.environ.get('CCM_GPUS', 0))\n")]),
    dict(name='R18.8 base class applies the configured GPU count after the RM detected it', rules=('R18.8',), edits=[
        (_B, _B_GPN, ""),
        (_B, _B_CALL, _B_CALL + _B_GPN)]),
    dict(name='R18.8 base class applies the configured lfs size after the RM built the list', rules=('R18.8',), edits=[
        (_B, _B_LFS, ""),
        (_B, _B_CALL, _B_CALL + "        if self._cfg.lfs_size_per_node:\n    " + _B_LFS)]),
    # round 4
    dict(name='R18.3 reservation in a nested helper which copies the last node', rules=('R18.3',), edits=[
        (_B, _RES_BLOCKS, _res_helper("rm_info.node_list[-1]"))]),
    dict(name='R18.3 reservation in a nested helper, emptiness check before its calls', rules=('R18.3',), edits=[
        (_B, _EMPTY, ""),
        (_B, _RES_BLOCKS, _EMPTY + "\n" + _res_helper())]),
    dict(name='R18.9 seed C18-g4: blocked resources only marked when both lists are configured', rules=('R18.9',), edits=[
        (_B, _BLK_IF, "        if blocked_cores and blocked_gpus:\n")]),
    dict(name='R18.9 marking only when cores are blocked', rules=('R18.9',), edits=[
        (_B, _BLK_IF, "        if blocked_cores:\n")]),
    dict(name='R18.9 marking guard by length, both lists required', rules=('R18.9',), edits=[
        (_B, _BLK_IF, "        if len(blocked_cores) > 0 and len(blocked_gpus) > 0:\n")]),
    dict(name='R18.9 marking guard hoisted into a local, both lists required', rules=('R18.9',), edits=[
        (_B, _BLK_IF, "        both = bool(blocked_cores) and bool(blocked_gpus)\n        if both:\n")]),
    dict(name='R18.9 GPU marking skipped when no core is blocked', rules=('R18.9',), edits=[
        (_B, _MARK_GPUS, "\n                if not blocked_cores:\n                    continue\n" + _MARK_GPUS)]),
    dict(name='R18.10 seed C18-g1: non-uniform node file accepted (>= 1)', rules=('R18.10',), edits=[
        (_B, _CPN_IF, "        if len(cores_per_node) >= 1:\n")]),
    dict(name='R18.10 any non-empty set of counts accepted', rules=('R18.10',), edits=[
        (_B, _CPN_IF, "        if cores_per_node:\n")]),
    dict(name='R18.10 uniformity test through a hoisted length, != 0', rules=('R18.10',), edits=[
        (_B, _CPN_IF, "        n_counts = len(cores_per_node)\n        if n_counts != 0:\n")]),
    dict(name='R18.10 up to two different counts accepted', rules=('R18.10',), edits=[
        (_B, _CPN_IF, "        if 0 < len(cores_per_node) <= 2:\n")]),
    dict(name='R18.11 seed C18-g3: registry written under the key without lower()', rules=('R18.11',), edits=[
        (_B, _REG_PUT, "            reg.put('rm.%s' % self.name, rm_info.as_dict())\n")]),
    dict(name='R18.11 registry read under the key without lower()', rules=('R18.11',), edits=[
        (_B, _REG_GET, "        rm_info = reg.get('rm.%s' % self.name)\n")]),
    dict(name='R18.11 registry written under an upper-case key through a local', rules=('R18.11',), edits=[
        (_B, _REG_PUT, "            key = 'rm.' + self.name.upper()\n            reg.put(key, rm_info.as_dict())\n")]),
    dict(name='R18.11 registry written under rm.info.<name>', rules=('R18.11',), edits=[
        (_B, _REG_PUT, "            reg.put('rm.info.%s' % self.name.lower(), rm_info.as_dict())\n")]),
    dict(name='R18.11 seed C18-j4: key cached in a local, read lower-cases it, write does not', rules=('R18.11',), edits=[
        (_B, _REG_GET, "        reg_key = 'rm.%s' % self.name\n        rm_info = reg.get(reg_key.lower())\n"),
        (_B, _REG_PUT, "            reg.put(reg_key, rm_info.as_dict())\n")]),
    dict(name='R18.11 key cached in a local, write lower-cases it, read does not', rules=('R18.11',), edits=[
        (_B, _REG_GET, "        reg_key = f'rm.{self.name}'\n        rm_info = reg.get(reg_key)\n"),
        (_B, _REG_PUT, "            reg.put(reg_key.lower(), rm_info.as_dict())\n")]),
    dict(name='R18.11 whole key lower-cased at the read, upper-cased at the write', rules=('R18.11',), edits=[
        (_B, _REG_GET, "        rm_info = reg.get(('rm.%s' % self.name).lower())\n"),
        (_B, _REG_PUT, "            reg.put(('rm.%s' % self.name).upper(), rm_info.as_dict())\n")]),
    dict(name='R18.12 seed C18-g6: LSF parses the host file without the SMT multiplier', rules=('R18.12',), edits=[
        (_LSF, _LSF_PARSE, "        nodes = self._parse_nodefile(hostfile)\n")]),
    dict(name='R18.12 LSF passes smt=1', rules=('R18.12',), edits=[
        (_LSF, _LSF_PARSE, "        nodes = self._parse_nodefile(hostfile, smt=1)\n")]),
    dict(name='R18.12 LSF hands the GPU thread count to the parser', rules=('R18.12',), edits=[
        (_LSF, _LSF_PARSE, "        nodes = self._parse_nodefile(hostfile, smt=rm_info.threads_per_gpu)\n")]),
    dict(name='R18.12 _parse_nodefile no longer multiplies by smt', rules=('R18.12',), edits=[
        (_B, _PNF_RET, "            return [(node, cpn) for node, cpn in nodes.items()]\n")]),
    dict(name='R18.13 seed C18-g5: exec_vnode cursor advanced by the separator length', rules=('R18.13',), edits=[
        (_PBS, _PBS_ADV, "            rhs = rhs[idx + 3:]\n")]),
    dict(name='R18.13 exec_vnode cursor advanced by one', rules=('R18.13',), edits=[
        (_PBS, _PBS_ADV, "            rhs = rhs[idx + 1:]\n")]),
    dict(name='R18.13 exec_vnode chunk starts two characters in', rules=('R18.13',), edits=[
        (_PBS, _PBS_CHUNK, "            node_str = rhs[2:idx]\n")]),
    dict(name='R18.13 exec_vnode chunk keeps the bracket of the separator', rules=('R18.13',), edits=[
        (_PBS, _PBS_CHUNK, "            node_str = rhs[:idx]\n"),
        (_PBS, "        nodes_list = []\n", "        nodes_list = []\n        rhs = rhs[1:]\n")]),
    dict(name='R18.14 seed C18-h6: PBSPro handler swallows every RuntimeError of the vnode parser', rules=('R18.14',), edits=[
        (_PBS, _PBS_HND, "            self._log.debug_1('exec_vnodes not available: %s', e)\n")]),
    dict(name='R18.14 PBSPro handler widened to Exception, logs only', rules=('R18.14',), edits=[
        (_PBS, _PBS_EXC + _PBS_HND, "        except Exception as e:\n            self._log.debug_1(str(e))\n")]),
    dict(name='R18.14 vnode parser refuses with ValueError, which the first handler swallows', rules=('R18.14',), edits=[
        (_PBS, _PBS_REF, "            raise ValueError('detected vnodes of different sizes')\n")]),
    dict(name='R18.14 PBSPro filter of the handler inverted', rules=('R18.14',), edits=[
        (_PBS, _PBS_FLT, "            if err_message.startswith('qstat failed'):\n")]),
    dict(name='R18.14 PBSPro filter also lets "detected ..." pass', rules=('R18.14',), edits=[
        (_PBS, _PBS_FLT, "            if not err_message.startswith(('qstat failed', 'detected')):\n")]),
    dict(name='R18.14 PBSPro re-raise moved under an unrelated condition', rules=('R18.14',), edits=[
        (_PBS, _PBS_FLT, "            if not err_message.startswith('qstat failed') and not rm_info.cores_per_node:\n")]),
]

SILENT = [
    dict(name='node list built into a temporary first', edits=[
        (_RMD + 'slurm.py', _GNL, "        node_list = self._get_node_list(nodes, rm_info)\n        rm_info.node_list = node_list\n")]),
    dict(name='_get_node_list called with keywords', edits=[
        (_RMD + 'torque.py', _GNL, "        rm_info.node_list = self._get_node_list(nodes=nodes, rm_info=rm_info)\n")]),
    dict(name='node_list assigned by subscript', edits=[
        (_RMD + 'cobalt.py', _GNL, "        rm_info['node_list'] = self._get_node_list(nodes, rm_info)\n")]),
    dict(name='Yarn keeps the value super() returns', edits=[
        (_RMD + 'yarn.py', "        super().init_from_scratch(rm_info)\n", "        rm_info = super().init_from_scratch(rm_info)\n")]),
    dict(name='_get_node_list as an append loop', edits=[
        (_B, "        node_list = [{'name'  : node[0],\n                      'index' : idx,\n                      'cores' : [rpc.FREE] * node[1],\n                      'gpus'  : [rpc.FREE] * rm_info.gpus_per_node,\n                      'lfs'   : rm_info.lfs_per_node,\n                      'mem'   : rm_info.mem_per_node}\n                     for idx, node in enumerate(nodes)]\n",
             "        node_list = list()\n        for i, n in enumerate(nodes):\n            node_list.append({'name'  : n[0],\n                              'index' : i,\n                              'cores' : n[1] * [rpc.FREE],\n                              'gpus'  : [rpc.FREE] * rm_info['gpus_per_node'],\n                              'lfs'   : rm_info.lfs_per_node,\n                              'mem'   : rm_info.mem_per_node})\n")]),
    dict(name='reduction guard from the other side', edits=[
        (_B, "        if len(rm_info.node_list) > rm_info.requested_nodes:", "        if rm_info.requested_nodes < len(rm_info.node_list):")]),
    dict(name='reduction through a local for the requested size', edits=[
        (_B, _CUT, "            n_req = rm_info.requested_nodes\n            rm_info.node_list   = rm_info.node_list[:n_req]\n")]),
    dict(name='reduction guard in early-skip form', edits=[
        (_B, "        if len(rm_info.node_list) > rm_info.requested_nodes:", "        if not len(rm_info.node_list) <= rm_info.requested_nodes:")]),
    dict(name='emptiness test by length', edits=[
        (_B, "        if not rm_info.node_list:\n            raise RuntimeError('ResourceManager has no nodes left", "        if len(rm_info.node_list) == 0:\n            raise RuntimeError('ResourceManager has no nodes left")]),
    dict(name='agent node popped into a temporary', edits=[
        (_B, "                    rm_info.agent_node_list.append(rm_info.node_list.pop())", "                    node = rm_info.node_list.pop()\n                    rm_info.agent_node_list.append(node)")]),
    dict(name='registry key through a local', edits=[
        (_B, "        rm_info = reg.get('rm.%s' % self.name.lower())\n", "        key     = 'rm.%s' % self.name.lower()\n        rm_info = reg.get(key)\n"),
        (_B, "            reg.put('rm.%s' % self.name.lower(), rm_info.as_dict())", "            reg.put(key, rm_info.as_dict())")]),
    dict(name='scratch branch first', edits=[
        (_B, "        if from_registry:\n\n            self._log.debug('RM init from registry')\n            rm_info = RMInfo(rm_info)\n            rm_info.verify()\n\n        else:\n",
             "        if from_registry:\n            self._log.debug('RM init from registry')\n            rm_info = RMInfo(rm_info)\n            rm_info.verify()\n\n        if not from_registry:\n")]),
    dict(name='verification before the registry write dropped to _set_info', edits=[
        (_B, "            rm_info = self._init_from_scratch()\n            rm_info.verify()\n", "            rm_info = self._init_from_scratch()\n")]),
    dict(name='slots counted with collections.Counter', edits=[
        (_B, _IMP, "import collections\n" + _IMP),
        (_B, _PNF, _READ +
         "            nodes = collections.Counter(lines)\n"
         "            if cpn:\n"
         "                for node in list(nodes.keys()):\n"
         "                    nodes[node] = cpn\n\n"
         "            return [(node, cpn * smt) for node, cpn in nodes.items()]\n")]),
    dict(name='dict comprehension over groupby of the sorted lines', edits=[
        (_B, _IMP, "import itertools\n" + _IMP),
        (_B, _PNF, _READ +
         "            nodes = {node: len(list(slots))\n"
         "                     for node, slots in itertools.groupby(sorted(lines))}\n\n"
         "            if cpn:\n"
         "                for node in list(nodes.keys()):\n"
         "                    nodes[node] = cpn\n\n"
         "            return [(node, cpn * smt) for node, cpn in nodes.items()]\n")]),
    dict(name='run sizes of groupby over the unsorted lines accumulated per name', edits=[
        (_B, _IMP, "import itertools\n" + _IMP),
        (_B, _PNF, _READ +
         "            nodes = dict()\n"
         "            for node, slots in itertools.groupby(lines):\n"
         "                nodes[node] = nodes.get(node, 0) + len(list(slots))\n\n"
         "            if cpn:\n"
         "                for node in list(nodes.keys()):\n"
         "                    nodes[node] = cpn\n\n"
         "            return [(node, cpn * smt) for node, cpn in nodes.items()]\n")]),
    dict(name='run sizes of groupby added with += to a defaultdict', edits=[
        (_B, _IMP, "import collections\nimport itertools\n" + _IMP),
        (_B, _PNF, _READ +
         "            nodes = collections.defaultdict(int)\n"
         "            for node, slots in itertools.groupby(lines):\n"
         "                nodes[node] += len(list(slots))\n\n"
         "            if cpn:\n"
         "                for node in list(nodes.keys()):\n"
         "                    nodes[node] = cpn\n\n"
         "            return [(node, cpn * smt) for node, cpn in nodes.items()]\n")]),
    dict(name='groupby used for the names only, counts from a Counter', edits=[
        (_B, _IMP, "import collections\nimport itertools\n" + _IMP),
        (_B, _PNF, _READ +
         "            counts = collections.Counter(lines)\n"
         "            nodes = {node: counts[node]\n"
         "                     for node, _ in itertools.groupby(lines)}\n\n"
         "            if cpn:\n"
         "                for node in list(nodes.keys()):\n"
         "                    nodes[node] = cpn\n\n"
         "            return [(node, cpn * smt) for node, cpn in nodes.items()]\n")]),
    dict(name='probe outcome: timeout branch first, ends with continue', edits=[
        (_B, _PROBE, "                if proc.retcode is None:\n"),
        (_B, _PROBE_AGAIN, _PROBE_AGAIN + "                    continue\n\n                if not proc.retcode:\n                    ok.append(node)\n")]),
    dict(name='probe outcome: accessible list as a comprehension after the wait loop', edits=[
        (_B, _PROBE, "                if proc.retcode is not None:\n                    pass\n                else:\n"),
        (_B, "            self._log.warning('using %d nodes out of %d', len(ok), len(procs))\n",
             "            ok = [node for name, proc, node in procs\n                       if proc.retcode is not None and not proc.retcode]\n"
             "            self._log.warning('using %d nodes out of %d', len(ok), len(procs))\n")]),
    dict(name='probe outcome: one combined test', edits=[
        (_B, _PROBE, "                if proc.retcode is not None and not proc.retcode:\n"
                     "                    ok.append(node)\n                if proc.retcode is None:\n")]),
    dict(name='probe outcome compared with 0', edits=[
        (_B, _PROBE, "                if proc.retcode == 0:\n"
                     "                    ok.append(node)\n                elif proc.retcode is None:\n")]),
    dict(name='probe outcome through a local read after the wait', edits=[
        (_B, _PROBE, "                rc = proc.retcode\n                if rc is not None:\n                    if not rc:\n"
                     "                        ok.append(node)\n                else:\n")]),
    dict(name='probe outcome: node which dies on cancel re-tested after the second wait', edits=[
        (_B, _PROBE, "                if proc.retcode is None:\n"),
        (_B, _PROBE_AGAIN, _PROBE_AGAIN + "                        continue\n\n                if proc.retcode in (0,):\n                    ok.append(node)\n")]),
    dict(name='Slurm: single plain host name taken as it is, both guards', edits=[
        (_SLURM, _SL_HOST, "        if '[' in nodelist or ',' in nodelist:\n            node_names = ru.get_hostlist(nodelist)\n"
                           "        else:\n            node_names = [nodelist]\n")]),
    dict(name='Slurm: enumerated hosts split at the commas when there is no range', edits=[
        (_SLURM, _SL_HOST, "        if '[' not in nodelist:\n            node_names = nodelist.split(',')\n"
                           "        else:\n            node_names = ru.get_hostlist(nodelist)\n")]),
    dict(name='Slurm: shortcut in early-assign form with a negated conjunction', edits=[
        (_SLURM, _SL_HOST, "        node_names = ru.get_hostlist(nodelist)\n"
                           "        if not (',' in nodelist or '[' in nodelist):\n            node_names = [nodelist]\n")]),
    dict(name='Slurm: single name first, expanded afterwards when a comma or a bracket is there', edits=[
        (_SLURM, _SL_HOST, "        node_names = [nodelist]\n        if ',' in nodelist or '[' in nodelist:\n"
                           "            node_names = ru.get_hostlist(nodelist)\n")]),
    dict(name='Slurm: expansion through a renamed local and a sorted copy', edits=[
        (_SLURM, _SL_HOST, "        hosts = ru.get_hostlist(nodelist)\n        node_names = list(hosts)\n")]),
    dict(name='lines sorted before groupby', edits=[
        (_B, _IMP, "import itertools\n" + _IMP),
        (_B, _PNF, _READ +
         "            nodes = list()\n"
         "            for node, slots in itertools.groupby(sorted(lines)):\n"
         "                assert ' ' not in node\n"
         "                nodes.append((node, cpn or len(list(slots))))\n\n"
         "            return [(node, slots * smt) for node, slots in nodes]\n")]),
    dict(name='lines sorted in place before groupby', edits=[
        (_B, _IMP, "import itertools\n" + _IMP),
        (_B, _PNF, _READ +
         "            lines.sort()\n"
         "            return [(node, (cpn or len(list(grp))) * smt)\n"
         "                    for node, grp in itertools.groupby(lines)]\n")]),
    dict(name='one line per node: dict.fromkeys with cpn, else a count', edits=[
        (_B, _PNF, _READ +
         "            if cpn:\n"
         "                nodes = dict.fromkeys(lines, cpn)\n"
         "            else:\n"
         "                nodes = {node: lines.count(node) for node in lines}\n\n"
         "            return [(node, cnt * smt) for node, cnt in nodes.items()]\n")]),
    dict(name='dict counting with get(), result list built by a loop', edits=[
        (_B, "                    if node in nodes: nodes[node] += 1\n                    else            : nodes[node]  = 1\n", "                    nodes[node] = nodes.get(node, 0) + 1\n"),
        (_B, "            return [(node, cpn * smt) for node, cpn in nodes.items()]\n",
             "            result = list()\n            for node, cnt in nodes.items():\n                result.append((node, cnt * smt))\n            return result\n")]),
    dict(name='marking loop over a local alias of the list', edits=[
        (_B, _MARK_HEAD, "            node_list = rm_info.node_list\n            for node in node_list:\n\n                for idx in blocked_cores:\n")]),
    dict(name='marking loop with enumerate and a copy of the list', edits=[
        (_B, _MARK_HEAD, "            for _, node in enumerate(list(rm_info.node_list)):\n\n                for idx in blocked_cores:\n")]),
    dict(name='marking loop by index over the whole list', edits=[
        (_B, _MARK_HEAD, "            n_nodes = len(rm_info.node_list)\n            for i in range(n_nodes):\n\n"
                         "                node = rm_info.node_list[i]\n\n                for idx in blocked_cores:\n")]),
    dict(name='marking extracted into a static helper', edits=[
        (_B, "            rm_info.cores_per_node -= len(blocked_cores)\n            rm_info.gpus_per_node  -= len(blocked_gpus)\n\n" + _MARK,
             "            self._block_resources(rm_info, blocked_cores, blocked_gpus)\n"),
        (_B, "    # --------------------------------------------------------------------------\n    #\n    def _filter_nodes(self, rm_info: RMInfo) -> None:\n",
             "    # --------------------------------------------------------------------------\n    #\n    @staticmethod\n"
             "    def _block_resources(info, b_cores, b_gpus) -> None:\n\n"
             "        info.cores_per_node -= len(b_cores)\n        info.gpus_per_node  -= len(b_gpus)\n\n"
             "        for n in info.node_list:\n            for i in b_cores:\n                assert len(n['cores']) > i\n                n['cores'][i] = rpc.DOWN\n"
             "            for i in b_gpus:\n                assert len(n['gpus']) > i\n                n['gpus'][i] = rpc.DOWN\n\n\n"
             "    # --------------------------------------------------------------------------\n    #\n    def _filter_nodes(self, rm_info: RMInfo) -> None:\n")]),
    dict(name='marking of one node extracted into a helper which gets the node', edits=[
        (_B, _MARK, "            for node in rm_info.node_list:\n                self._block_node(node, blocked_cores, blocked_gpus)\n"),
        (_B, "    # --------------------------------------------------------------------------\n    #\n    def _filter_nodes(self, rm_info: RMInfo) -> None:\n",
             "    # --------------------------------------------------------------------------\n    #\n"
             "    def _block_node(self, node, b_cores, b_gpus) -> None:\n\n"
             "        for i in b_cores:\n            assert len(node['cores']) > i\n            node['cores'][i] = rpc.DOWN\n\n"
             "        for i in b_gpus:\n            assert len(node['gpus']) > i\n            node['gpus'][i] = rpc.DOWN\n\n\n"
             "    # --------------------------------------------------------------------------\n    #\n    def _filter_nodes(self, rm_info: RMInfo) -> None:\n")]),
    dict(name='marking loops nested the other way round, vectors through locals', edits=[
        (_B, _MARK, "            for idx in blocked_cores:\n                for node in rm_info.node_list:\n"
                    "                    assert len(node['cores']) > idx\n                    node['cores'][idx] = rpc.DOWN\n\n"
                    "            for node in rm_info.node_list:\n                gpus = node['gpus']\n                for idx in blocked_gpus:\n"
                    "                    assert len(gpus) > idx\n                    gpus[idx] = rpc.DOWN\n")]),
    dict(name='GPUs marked in a second complete loop which re-uses the loop variable', edits=[
        (_B, _MARK_GPUS, "\n            for node in rm_info.node_list:\n" + _MARK_GPUS)]),
    dict(name='two marking loops over a local alias of the list, the second behind the first', edits=[
        (_B, _MARK, "            nl = rm_info.node_list\n            for node in nl:\n"
                    "                for idx in blocked_cores:\n                    assert len(node['cores']) > idx\n"
                    "                    node['cores'][idx] = rpc.DOWN\n\n"
                    "            for n in nl:\n                node = n\n                for idx in blocked_gpus:\n"
                    "                    assert len(node['gpus']) > idx\n                    node['gpus'][idx] = rpc.DOWN\n")]),
    dict(name='GPU marking nested idx-outermost behind the core loop', edits=[
        (_B, _MARK_GPUS, "\n            for idx in blocked_gpus:\n                for node in rm_info.node_list:\n"
                         "                    assert len(node['gpus']) > idx\n                    node['gpus'][idx] = rpc.DOWN\n")]),
    dict(name='marking loop skips the GPU part when no GPU is blocked', edits=[
        (_B, _MARK_GPUS, "\n                if not blocked_gpus:\n                    continue\n" + _MARK_GPUS)]),
    dict(name='LSF passes cpn=0 explicitly', edits=[
        (_LSF, _LSF_PARSE, "        nodes = self._parse_nodefile(hostfile, cpn=0, smt=smt)\n")]),
    dict(name='LSF pseudo-node filter as a helper used in a comprehension', edits=[
        (_LSF, _LSF_HELPER[0], _LSF_HELPER[1]),
        (_LSF, _LSF_FILT, _LSF_COMP)]),
    dict(name='LSF pseudo-node filter with the tuple unpacked and a positive test', edits=[
        (_LSF, _LSF_FILT, "        filtered = list()\n        for node in nodes:\n            name, slots = node\n"
                          "            pseudo = 'login' in name or 'batch' in name or slots == smt\n"
                          "            if not pseudo:\n                filtered.append(node)\n\n        nodes = filtered\n")]),
    dict(name='PBSPro hoists cpn into a local', edits=[
        (_RMD + 'pbspro.py', _PBS_PARSE,
         "            cpn   = rm_info.cores_per_node\n"
         "            nodes = self._parse_nodefile(os.environ['PBS_NODEFILE'], cpn,\n"
         "                                         rm_info.threads_per_core)\n")]),
    dict(name='Cobalt logs entries whose slot count differs, keeps all of them', edits=[
        (_RMD + 'cobalt.py', _COB_PARSE, _COB_PARSE +
         "            for node in nodes:\n                if node[1] != rm_info.cores_per_node:\n"
         "                    self._log.warn('unexpected slot count: %s', node)\n")]),
    dict(name='Cobalt copies the parsed tuples in a comprehension', edits=[
        (_RMD + 'cobalt.py', _COB_PARSE, _COB_PARSE +
         "            nodes    = [(name, slots) for name, slots in nodes]\n")]),
    dict(name='Slurm discovers the GPUs before the cores', edits=[
        (_SLURM, _SL_CPN + _SL_GPU, _SL_GPU + _SL_CPN)]),
    dict(name='Slurm makes the node tuples right after the core detection, builds the list at the end', edits=[
        (_SLURM, _SL_GPU + _SL_TAIL, _SL_NODES + _SL_GPU + _GNL)]),
    dict(name='Slurm node tuples by an append loop over a local for the core count', edits=[
        (_SLURM, _SL_NODES, "        cpn   = rm_info.cores_per_node\n        nodes = list()\n        for name in node_names:\n            nodes.append((name, cpn))\n\n")]),
    dict(name='Slurm GPU discovery in a helper which stores into the RMInfo, called before the list is built', edits=[
        (_SLURM, "    def init_from_scratch(self, rm_info: RMInfo) -> RMInfo:\n", _SL_HELPER + "    def init_from_scratch(self, rm_info: RMInfo) -> RMInfo:\n"),
        (_SLURM, _SL_GPU, "        self._detect_gpus(rm_info)\n\n")]),
    dict(name='Slurm GPU discovery with a guard clause for the first variable and one store at the end', edits=[
        (_SLURM, _SL_GPU,
         "        n_gpus = rm_info.gpus_per_node\n"
         "        if not n_gpus:\n"
         "            gpu_ids = os.environ.get('SLURM_JOB_GPUS')  or \\\n"
         "                      os.environ.get('SLURM_STEP_GPUS') or \\\n"
         "                      os.environ.get('GPU_DEVICE_ORDINAL')\n"
         "            if os.environ.get('SLURM_GPUS_ON_NODE'):\n"
         "                n_gpus = int(os.environ['SLURM_GPUS_ON_NODE'])\n"
         "            elif gpu_ids:\n"
         "                n_gpus = len(gpu_ids.split(','))\n"
         "            if n_gpus:\n"
         "                rm_info.gpus_per_node = n_gpus\n\n")]),
    dict(name='base class: defaults of lfs and GPUs in the other order, blocked GPUs subtracted in expanded form', edits=[
        (_B, _B_GPN + _B_LFS, _B_LFS + _B_GPN),
        (_B, _B_DEC, "            rm_info.gpus_per_node   = rm_info.gpus_per_node - len(blocked_gpus)\n")]),
    dict(name='Torque detects the cores per node after the list is built (entries are sized by the node tuples)', edits=[
        (_RMD + 'torque.py', "        if not rm_info.cores_per_node:\n            rm_info.cores_per_node = self._get_cores_per_node(nodes)\n\n" + _GNL,
         _GNL + "\n        if not rm_info.cores_per_node:\n            rm_info.cores_per_node = self._get_cores_per_node(nodes)\n")]),
    # round 4
    dict(name='seed C18-r7 shape: reservation blocks as one nested helper with early return', edits=[
        (_B, _RES_BLOCKS, _res_helper())]),
    dict(name='agent list through a local alias, service nodes by extend() of pops', edits=[
        (_B, "                    rm_info.agent_node_list.append(rm_info.node_list.pop())", "                    agents = rm_info.agent_node_list\n                    agents.append(rm_info.node_list.pop())"),
        (_B, "                for _ in range(service_nodes):\n                    rm_info.service_node_list.append(rm_info.node_list.pop())\n",
             "                rm_info.service_node_list.extend([rm_info.node_list.pop()\n                                                  for _ in range(service_nodes)])\n")]),
    dict(name='blocked guard with the operands swapped', edits=[
        (_B, _BLK_IF, "        if blocked_gpus or blocked_cores:\n")]),
    dict(name='blocked guard hoisted into a local', edits=[
        (_B, _BLK_IF, "        any_blocked = bool(blocked_cores or blocked_gpus)\n        if any_blocked:\n")]),
    dict(name='blocked guard by length', edits=[
        (_B, _BLK_IF, "        if len(blocked_cores) > 0 or len(blocked_gpus) > 0:\n")]),
    dict(name='blocked guard in De Morgan form', edits=[
        (_B, _BLK_IF, "        if not (not blocked_cores and not blocked_gpus):\n")]),
    dict(name='blocked guard on the concatenated lists', edits=[
        (_B, _BLK_IF, "        if blocked_cores + blocked_gpus:\n")]),
    dict(name='uniformity test as an early raise, set comprehension', edits=[
        (_B, _CPN_SET, "        core_counts = {node[1] for node in nodes}\n"),
        (_B, _CPN_BODY, "        if len(core_counts) != 1:\n"
                        "            raise ValueError('non-uniform node list, cores_per_node invalid')\n\n"
                        "        cores_per_node = core_counts.pop()\n"
                        "        self._log.debug('found %d [%d cores]', len(nodes), cores_per_node)\n\n"
                        "        return cores_per_node\n")]),
    dict(name='uniformity test through a hoisted length', edits=[
        (_B, _CPN_IF, "        n_counts = len(cores_per_node)\n        if n_counts == 1:\n")]),
    dict(name='uniformity test split: too many counts, then no count', edits=[
        (_B, _CPN_BODY, "        if len(cores_per_node) > 1:\n"
                        "            raise ValueError('non-uniform node list, cores_per_node invalid')\n\n"
                        "        if not cores_per_node:\n"
                        "            raise ValueError('non-uniform node list, cores_per_node invalid')\n\n"
                        "        return cores_per_node.pop()\n")]),
    dict(name='uniformity test by min / max of the counts', edits=[
        (_B, _CPN_SET, "        counts = [node[1] for node in nodes]\n"),
        (_B, _CPN_BODY, "        if not counts or min(counts) != max(counts):\n"
                        "            raise ValueError('non-uniform node list, cores_per_node invalid')\n\n"
                        "        self._log.debug('found %d [%d cores]', len(nodes), counts[0])\n"
                        "        return counts[0]\n")]),
    dict(name='registry key as f-string at the write', edits=[
        (_B, _REG_PUT, "            reg.put(f'rm.{self.name.lower()}', rm_info.as_dict())\n")]),
    dict(name='registry key by concatenation at the read, format() at the write', edits=[
        (_B, _REG_GET, "        rm_info = reg.get('rm.' + self.name.lower())\n"),
        (_B, _REG_PUT, "            reg.put('rm.{}'.format(self.name.lower()), rm_info.as_dict())\n")]),
    dict(name='lower-cased name in a local used by both keys', edits=[
        (_B, _REG_GET, "        lname   = self.name.lower()\n        rm_info = reg.get('rm.%s' % lname)\n"),
        (_B, _REG_PUT, "            reg.put(f'rm.{lname}', rm_info.as_dict())\n")]),
    dict(name='un-normalised key cached in a local, lower-cased at both uses', edits=[
        (_B, _REG_GET, "        reg_key = 'rm.%s' % self.name\n        rm_info = reg.get(reg_key.lower())\n"),
        (_B, _REG_PUT, "            reg.put(reg_key.lower(), rm_info.as_dict())\n")]),
    dict(name='whole key lower-cased at the read, name lower-cased at the write', edits=[
        (_B, _REG_GET, "        rm_info = reg.get(('rm.%s' % self.name).lower())\n")]),
    dict(name='key lower-cased once into a second local used by both', edits=[
        (_B, _REG_GET, "        raw_key = 'rm.' + self.name\n        reg_key = raw_key.lower()\n        rm_info = reg.get(reg_key)\n"),
        (_B, _REG_PUT, "            reg.put(reg_key, rm_info.as_dict())\n")]),
    dict(name='key lower-cased twice on the read side', edits=[
        (_B, _REG_GET, "        reg_key = ('rm.%s' % self.name.lower()).lower()\n        rm_info = reg.get(reg_key)\n")]),
    dict(name='class name spelled out at the write', edits=[
        (_B, _REG_PUT, "            reg.put('rm.%s' % type(self).__name__.lower(), rm_info.as_dict())\n")]),
    dict(name='LSF passes cpn=0 and smt positionally', edits=[
        (_LSF, _LSF_PARSE, "        nodes = self._parse_nodefile(hostfile, 0, smt)\n")]),
    dict(name='LSF hands rm_info.threads_per_core to the parser directly', edits=[
        (_LSF, _LSF_PARSE, "        nodes = self._parse_nodefile(hostfile, smt=rm_info.threads_per_core)\n")]),
    dict(name='LSF multiplies the slot counts itself', edits=[
        (_LSF, _LSF_PARSE, "        nodes = self._parse_nodefile(hostfile)\n"
                           "        nodes = [(name, slots * (smt or 1)) for name, slots in nodes]\n")]),
    dict(name='PBSPro folds the thread count into cpn', edits=[
        (_PBS, _PBS_PARSE, "            nodes = self._parse_nodefile(os.environ['PBS_NODEFILE'],\n"
                           "                                         cpn=rm_info.cores_per_node *\n"
                           "                                             (rm_info.threads_per_core or 1))\n")]),
    dict(name='exec_vnode: outer bracket stripped first, cursor advanced by the whole separator', edits=[
        (_PBS, "        nodes_list = []\n", "        nodes_list = []\n        rhs = rhs[1:]\n"),
        (_PBS, _PBS_CHUNK, "            node_str = rhs[:idx]\n"),
        (_PBS, _PBS_ADV, "            rhs = rhs[idx + 3:]\n")]),
    dict(name='exec_vnode: cursor position and separator through locals', edits=[
        (_PBS, _PBS_FIND, "            sep = ')+('\n            idx = rhs.find(sep)\n"),
        (_PBS, _PBS_ADV, "            pos = idx + 2\n            rhs = rhs[pos:]\n")]),
    dict(name='exec_vnode: chunks by split()', edits=[
        (_PBS, _PBS_LOOP, "        nodes_list = rhs[1:-1].split(')+(')\n")]),
    dict(name='exec_vnode: chunk appended without a temporary', edits=[
        (_PBS, _PBS_CHUNK + "            nodes_list.append(node_str)\n", "            nodes_list.append(rhs[1:idx])\n")]),
    dict(name='PBSPro handler filter in positive form with else: raise', edits=[
        (_PBS, _PBS_HND, "            if 'qstat failed' in str(e):\n"
                         "                self._log.debug_1(str(e))\n"
                         "            else:\n"
                         "                raise\n")]),
    dict(name='PBSPro handler: message from e.args, verdict in a local', edits=[
        (_PBS, _PBS_HND, "            msg    = e.args[0]\n"
                         "            benign = msg.startswith('qstat failed')\n"
                         "            if not benign:\n"
                         "                raise\n"
                         "            self._log.debug_1(msg)\n")]),
    dict(name='PBSPro handler re-raises by name', edits=[
        (_PBS, "                raise\n            self._log.debug_1(err_message)\n",
               "                raise e\n            self._log.debug_1(err_message)\n")]),
    dict(name='PBSPro handler filter extracted into a helper method', edits=[
        (_PBS, _PBS_FLT, "            if not self._is_benign(err_message):\n"),
        (_PBS, "    def _parse_pbspro_vnodes(self) -> Tuple[List[str], int]:\n",
               "    @staticmethod\n"
               "    def _is_benign(text) -> bool:\n\n"
               "        return text.startswith('qstat failed')\n\n"
               "    def _parse_pbspro_vnodes(self) -> Tuple[List[str], int]:\n")]),
    dict(name='PBSPro handlers merged, type told apart by isinstance', edits=[
        (_PBS, "        except (IndexError, ValueError):\n"
               "            self._log.debug_2('exec_vnodes not detected')\n\n"
               + _PBS_EXC + _PBS_HND,
               "        except (IndexError, ValueError, RuntimeError) as e:\n"
               "            if isinstance(e, RuntimeError):\n"
               "                if not str(e).startswith('qstat failed'):\n"
               "                    raise\n"
               "                self._log.debug_1(str(e))\n"
               "            else:\n"
               "                self._log.debug_2('exec_vnodes not detected')\n")]),
    dict(name='vnode parser refuses by `!= 1` on a non-empty set, count by next(iter())', edits=[
        (_PBS, "        if len(ncpus_set) > 1:\n", "        if ncpus_set and len(ncpus_set) != 1:\n"),
        (_PBS, "        return sorted(vnodes_set), ncpus_set.pop()\n",
               "        ncpus = next(iter(ncpus_set))\n        return sorted(vnodes_set), ncpus\n")]),
    dict(name='Torque wraps the count detection in a handler which logs and re-raises', edits=[
        (_RMD + 'torque.py', _TRQ_CPN,
         "            try:\n"
         "                rm_info.cores_per_node = self._get_cores_per_node(nodes)\n"
         "            except ValueError:\n"
         "                self._log.error('node file is not uniform')\n"
         "                raise\n")]),
]
