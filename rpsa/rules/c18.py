"""C18  The pilot offers exactly the nodes it was allocated  (DESIGN 5 / C18)

R18.1  every RM class of ResourceManager.get_manager's table assigns
       rm_info.node_list from self._get_node_list(<nodes>, rm_info) (or lets
       super() do it) on every path to its return, writes it nowhere else and
       returns the RMInfo it was given                 (ownership rule, 5.0)
R18.2  _get_node_list: one entry per element of `nodes`, index drawn from
       enumerate(nodes), name / core vector from the node tuple, GPU vector
       from rm_info.gpus_per_node, vectors initialised FREE
R18.3  _filter_nodes: reduction to [:requested_nodes] on every path where the
       list is longer; agent/service nodes are pop()ped (moved); the
       empty-list raise is the last thing to look at the list
R18.4  __init__: the registry write is dominated by _init_from_scratch (which
       filters on every path to its return) and carries its result; nothing
       else filters or rebuilds the list; the registry read path does not
       filter again; both paths hand the same variable to _set_info
"""

import ast

from ..model import (walk, call_name, kwarg, unparse, short, UNKNOWN,
                     AnalysisError, calls_in)
from ..cfg import cfg_of
from ..flow import must_pass
from .. import idioms as I
from . import c01

RM = ('agent/resource_manager/base.py', 'ResourceManager')


# ------------------------------------------------------------------------------
#
def rm_table(prog, rep):
    """{name: ClassInfo} from the `impl` dict literal of get_manager"""
    f = prog.method(RM[0], RM[1], 'get_manager')
    rep.saw(f)
    li = f.module.local_imports(f.node)
    tables = [n for n in walk(f.node) if isinstance(n, ast.Assign) and
              isinstance(n.value, ast.Dict) and n.value.keys]
    if len(tables) != 1:
        raise AnalysisError('UNRECOGNISED-IDIOM %s: expected one table, found '
                            '%d' % (f.where, len(tables)))
    out = {}
    for k, v in zip(tables[0].value.keys, tables[0].value.values):
        key = prog.fold(f.module, k, f.cls) if k is not None else UNKNOWN
        r = prog.resolve(f.module, v, li)
        if key is UNKNOWN or not r or r[0] != 'class':
            # reported by C17 (R17.1t); here the class simply is not analysable
            raise AnalysisError('row %s: %s of %s does not resolve to a class '
                                '(see C17 R17.1t)' % (short(k), short(v),
                                                      f.where))
        out[key] = r[1]
    return out


def _is_node_list(expr, var=None):
    """<var>.node_list / <var>['node_list']"""
    if isinstance(expr, ast.Attribute) and expr.attr == 'node_list':
        return var is None or (isinstance(expr.value, ast.Name) and
                               expr.value.id == var)
    if isinstance(expr, ast.Subscript) and \
            isinstance(expr.slice, ast.Constant) and \
            expr.slice.value == 'node_list':
        return var is None or (isinstance(expr.value, ast.Name) and
                               expr.value.id == var)
    return False


def _field(expr, name, var=None):
    if isinstance(expr, ast.Attribute) and expr.attr == name:
        return var is None or (isinstance(expr.value, ast.Name) and
                               expr.value.id == var)
    if isinstance(expr, ast.Subscript) and \
            isinstance(expr.slice, ast.Constant) and expr.slice.value == name:
        return var is None or (isinstance(expr.value, ast.Name) and
                               expr.value.id == var)
    return False


def node_list_writes(f, var=None):
    """[(kind, ast stmt/call)] of writes to <x>.node_list in f: 'assign',
    'aug', 'del', 'mutate' (append/extend/insert/pop/remove/...), 'item'
    (x.node_list[i] = ..)"""
    out = []
    for kind, target, stmt in I.stores(f.node, nested=True):
        if _is_node_list(target, var):
            out.append((kind, stmt))
        elif isinstance(target, ast.Subscript) and \
                _is_node_list(target.value, var) and kind in ('assign', 'aug',
                                                               'del'):
            out.append(('item', stmt))
    return out


# ------------------------------------------------------------------------------
# R18.1
#
def r18_1(prog, rep, table, rid='R18.1', minimum=26):
    rep.rule(rid, 'every RM of the factory table assigns rm_info.node_list '
             'from self._get_node_list(nodes, rm_info) (or through super()) on '
             'every path to its return, writes the list nowhere else and '
             'returns the RMInfo it was handed', minimum=minimum)
    base = prog.cls(*RM)
    builders = set()
    done = {}

    def analyse(K, f):
        """-> True if f (init_from_scratch as seen by K) discharges; reports"""
        key = (K.where, f.where)
        if key in done:
            return done[key]
        done[key] = True                       # recursion guard
        rep.saw(f)
        params = [p for p in f.params if p != 'self']
        if not params:
            raise AnalysisError('UNRECOGNISED-IDIOM %s: no rm_info parameter'
                                % f.where)
        var = params[0]
        g = cfg_of(f)
        smap = I.stmt_node_map(g)
        rep.stat('cfg_nodes', len(g.nodes))
        good = []
        okay = True
        for kind, stmt in node_list_writes(f):
            n = smap.get(id(stmt))
            v = stmt.value if isinstance(stmt, ast.Assign) else None
            if isinstance(v, ast.Name):
                # built into a temporary first: nl = self._get_node_list(..)
                a = _local_alias(f, v.id)
                if isinstance(a, ast.Call):
                    v = a
            if kind == 'assign' and isinstance(v, ast.Call) and \
                    call_name(v) == 'self._get_node_list' and \
                    any(_is_node_list(t, var) for t in stmt.targets):
                callee = prog.resolve_call(f, v, K)
                if callee is None:
                    raise AnalysisError('%s: self._get_node_list does not '
                                        'resolve for %s' % (f.where, K.name))
                builders.add(callee)
                info = kwarg(v, 'rm_info', 1)
                passed = isinstance(info, ast.Name) and info.id == var
                rep.check(passed, rid, f, '%s: _get_node_list is given the '
                          'RMInfo under construction' % K.name, construct=stmt,
                          message='%s.%s builds the node list with `%s` '
                          'instead of its own RMInfo `%s`: the configured '
                          'gpus/lfs/mem per node are not the ones used'
                          % (K.name, f.name, short(info), var),
                          loc=f.loc(stmt),
                          history='platform with gpus_per_node=4: nodes are '
                          'offered with another GPU count')
                okay &= passed
                if n is not None:
                    good.append(n.id)
                continue
            okay = False
            rep.bad(rid, f, stmt, 'node list written outside the owner: %s '
                    'in %s.%s (%s).  Every RM must obtain the list from '
                    'self._get_node_list(), which alone guarantees one entry '
                    'per allocated node, unique enumerate() indices and the '
                    'configured core/GPU vectors (R18.2)'
                    % (short(stmt, 70), K.name, f.name, kind), f.loc(stmt),
                    history='a node file with two hosts: the hand-built list '
                    'can carry duplicate indices or wrongly sized core/GPU '
                    'vectors, which the scheduler then hands to tasks')
        # delegation to the super class implementation
        for c in calls_in(f.node):
            if call_name(c) == 'super().' + f.name:
                callee = prog.resolve_call(f, c, K)
                n = smap.get(id(c))
                if callee is None or callee.cls is base:
                    continue
                a0 = c.args[0] if c.args else kwarg(c, var)
                if analyse(K, callee) and isinstance(a0, ast.Name) and \
                        a0.id == var and n is not None:
                    good.append(n.id)
        covered = bool(good) and must_pass(g, g.entry.id, g.exit.id, good)
        rep.check(covered, rid, f, '%s: every path of %s to its return passes '
                  'rm_info.node_list = self._get_node_list(..)'
                  % (K.name, f.name), construct='%s:paths' % K.name,
                  message='%s.%s can return without having assigned '
                  'rm_info.node_list from self._get_node_list(): the base '
                  'class then filters an empty or stale list'
                  % (K.name, f.name), loc=f.loc(),
                  history='the branch of %s.%s which skips the assignment: '
                  '`assert rm_info.requested_nodes <= len(node_list)` fails '
                  'or RMInfo.verify() rejects the empty list, the agent dies'
                  % (K.name, f.name))
        okay &= covered
        # what is returned is the RMInfo handed in
        rets = [n for n in walk(f.node) if isinstance(n, ast.Return)]
        falls = any(not (g.nodes[e.src].kind == 'stmt' and
                         isinstance(g.nodes[e.src].ast, ast.Return))
                    for e in g.pred[g.exit.id])
        bad_ret = [r for r in rets if not (
            isinstance(r.value, ast.Name) and r.value.id == var or
            isinstance(r.value, ast.Call) and
            call_name(r.value) == 'super().' + f.name)]
        rebound = [n for n in walk(f.node) if isinstance(n, ast.Assign) and
                   any(isinstance(t, ast.Name) and t.id == var
                       for t in n.targets) and not (
                       isinstance(n.value, ast.Call) and
                       call_name(n.value) == 'super().' + f.name)]
        rok = not bad_ret and not falls and not rebound
        why = 'falls off its end (returns None)' if falls else \
            're-binds `%s`' % var if rebound else \
            'returns `%s`' % short(bad_ret[0].value) if bad_ret else ''
        rep.check(rok, rid, f, '%s: %s returns the RMInfo it was handed'
                  % (K.name, f.name), construct='%s:return' % K.name,
                  message='%s.%s %s: ResourceManager._init_from_scratch '
                  'continues with whatever is returned'
                  % (K.name, f.name, why), loc=f.loc(),
                  history='any pilot on this batch system: rm_info is None / '
                  'another object in _init_from_scratch, blocked cores and '
                  'filtering are applied to the wrong list')
        okay &= rok
        done[key] = okay
        return okay

    n_cls = 0
    for name, K in sorted(table.items()):
        f = prog.find_method(K, 'init_from_scratch')
        if f is None or f.cls is base:
            rep.bad(rid, K, '%s:init_from_scratch' % K.name,
                    'RM class %s (table row %r) does not implement '
                    'init_from_scratch: the base class raises '
                    'NotImplementedError' % (K.name, name), K.where,
                    history='resource config with resource_manager=%r' % name)
            continue
        n_cls += 1
        analyse(K, f)
    rep.stat('rm_classes', n_cls)
    if not builders:
        builders.add(prog.method(RM[0], RM[1], '_get_node_list'))
    return builders


# ------------------------------------------------------------------------------
# R18.2
#
def r18_2(prog, rep, builders, rid='R18.2'):
    rep.rule(rid, '_get_node_list: one dict per element of `nodes`, index from '
             'enumerate(nodes), name and core vector from the node tuple, GPU '
             'vector from rm_info.gpus_per_node, vectors filled with FREE',
             minimum=6)
    free = prog.const('constants.py', 'FREE')
    for f in sorted(builders, key=lambda x: x.where):
        rep.saw(f)
        params = [p for p in f.params if p != 'self']
        if len(params) < 2:
            raise AnalysisError('UNRECOGNISED-IDIOM %s: parameters %s'
                                % (f.where, params))
        nodes_p, info_p = params[0], params[1]
        # the dict literal with an 'index' key and the loop it sits in
        site = None
        filtered = False
        for n in walk(f.node):
            if isinstance(n, ast.ListComp) and isinstance(n.elt, ast.Dict) and \
                    len(n.generators) == 1:
                gen = n.generators[0]
                site = (n.elt, gen.target, gen.iter, n, None)
                filtered = bool(gen.ifs)
            elif isinstance(n, ast.For):
                for c in calls_in(n):
                    if isinstance(c.func, ast.Attribute) and \
                            c.func.attr == 'append' and c.args and \
                            isinstance(c.args[0], ast.Dict):
                        site = (c.args[0], n.target, n.iter, n,
                                unparse(c.func.value))
        if site is None:
            raise AnalysisError('UNRECOGNISED-IDIOM %s: no list of node dicts '
                                'built by a comprehension or an append loop'
                                % f.where)
        dct, target, it, loop, acc = site
        keys = {}
        for k, v in zip(dct.keys, dct.values):
            if isinstance(k, ast.Constant):
                keys[k.value] = v
        for need in ('name', 'index', 'cores', 'gpus'):
            if need not in keys:
                rep.bad(rid, f, 'key:%s' % need, 'the node dicts built by %s '
                        'lack the key %r' % (f.qual, need), f.loc(dct),
                        history='every pilot: the scheduler reads node[%r]'
                        % need)
        if not all(k in keys for k in ('name', 'index', 'cores', 'gpus')):
            continue
        # iteration: enumerate(<nodes>[, start]) over the whole parameter
        idx_var = elt_var = None
        whole = False
        if isinstance(it, ast.Call) and call_name(it) == 'enumerate' and \
                it.args and isinstance(target, ast.Tuple) and \
                len(target.elts) == 2 and \
                all(isinstance(e, ast.Name) for e in target.elts):
            idx_var, elt_var = target.elts[0].id, target.elts[1].id
            whole = isinstance(it.args[0], ast.Name) and \
                it.args[0].id == nodes_p
            rebinds = [n for n in walk(f.node) if isinstance(n, ast.Assign)
                       and any(isinstance(t, ast.Name) and t.id == nodes_p
                               for t in n.targets)]
            whole = whole and not rebinds
        elif isinstance(target, ast.Name):
            elt_var = target.id
            whole = isinstance(it, ast.Name) and it.id == nodes_p
        else:
            raise AnalysisError('UNRECOGNISED-IDIOM %s: loop `%s in %s`'
                                % (f.where, short(target), short(it)))
        if acc is not None:
            # append loop: the append must not be conditional
            lg = cfg_of(f)
            lmap = I.stmt_node_map(lg)
            for c in calls_in(loop):
                if isinstance(c.func, ast.Attribute) and \
                        c.func.attr == 'append' and c.args and \
                        c.args[0] is dct and id(c) in lmap:
                    # an iteration of the loop which avoids the append
                    from ..flow import loop_slice
                    an = lmap[id(c)]
                    if not an.loops:
                        raise AnalysisError('UNRECOGNISED-IDIOM %s: append '
                                            'outside of a loop' % f.where)
                    head = an.loops[-1]
                    start = loop_slice(lg, head)[0]
                    filtered = start != an.id and head in lg.reachable(
                        start, skip_nodes={an.id})
        rep.check(whole and not filtered, rid, f, 'one entry per element of '
                  'the parameter %r' % nodes_p,
                  construct='iter:%s%s' % (short(it), ':filtered' if filtered
                                           else ''),
                  message='%s iterates `%s`%s, not the complete node tuple '
                  'list %r: allocated nodes are dropped or duplicated'
                  % (f.qual, short(it), ' under a filter' if filtered else '',
                     nodes_p), loc=f.loc(loop),
                  history='nodes = [(n1, 8), (n2, 8)]: the offered list does '
                  'not have exactly the entries n1, n2')
        iv = keys['index']
        rep.check(idx_var is not None and isinstance(iv, ast.Name) and
                  iv.id == idx_var, rid, f, "'index' is the enumerate() "
                  'counter', construct="index:%s" % short(iv),
                  message="%s sets node['index'] to `%s`, which is not the "
                  'counter of enumerate(%s): indices are not unique per node'
                  % (f.qual, short(iv), nodes_p), loc=f.loc(iv),
                  history='two allocated nodes receive the same index; slots '
                  'of a task placed on the second node name the first (jsrun '
                  'ERF files, _change_slot_states address nodes by index)')

        def elt_item(e, i):
            return isinstance(e, ast.Subscript) and \
                isinstance(e.value, ast.Name) and e.value.id == elt_var and \
                isinstance(e.slice, ast.Constant) and e.slice.value == i

        rep.check(elt_item(keys['name'], 0), rid, f, "'name' is element 0 of "
                  'the node tuple', construct='name:%s' % short(keys['name']),
                  message="%s sets node['name'] to `%s`, not to the host name "
                  'of the node tuple' % (f.qual, short(keys['name'])),
                  loc=f.loc(keys['name']),
                  history='tasks are launched on a host which is not the '
                  'allocated one')

        def vector(e):
            """([FREE] * n) -> (fill value, n expr) | None"""
            if isinstance(e, ast.BinOp) and isinstance(e.op, ast.Mult):
                for lst, cnt in ((e.left, e.right), (e.right, e.left)):
                    if isinstance(lst, ast.List) and len(lst.elts) == 1:
                        return prog.fold(f.module, lst.elts[0], f.cls), cnt
            return None

        for key, what in (('cores', 'core'), ('gpus', 'GPU')):
            vec = vector(keys[key])
            if vec is None:
                raise AnalysisError('UNRECOGNISED-IDIOM %s: %r vector `%s`'
                                    % (f.where, key, short(keys[key])))
            fill, cnt = vec
            filled = fill is not UNKNOWN and fill == free and \
                type(fill) == type(free)
            rep.check(filled, rid, f, '%s vector is initialised FREE' % what,
                      construct='%s:fill' % key,
                      message='%s fills the %s vector with %r instead of '
                      'rpc.FREE: nothing (or everything) of a fresh node is '
                      'schedulable' % (f.qual, what, fill),
                      loc=f.loc(keys[key]),
                      history='first task on a fresh pilot')
            if key == 'cores':
                sized = elt_item(cnt, 1)
                msg = 'element 1 of the node tuple (its core count)'
            else:
                sized = _field(cnt, 'gpus_per_node', info_p)
                msg = '%s.gpus_per_node' % info_p
            rep.check(sized, rid, f, '%s vector is sized by %s' % (what, msg),
                      construct='%s:size' % key,
                      message='%s sizes the %s vector by `%s`, not by %s'
                      % (f.qual, what, short(cnt), msg), loc=f.loc(keys[key]),
                      history='platform with 8 cores and 2 GPUs per node: the '
                      'node is offered with another number of %ss' % what)
        # what is returned is that list
        res = None
        for n in walk(f.node):
            if isinstance(n, ast.Assign) and n.value is loop and \
                    len(n.targets) == 1 and isinstance(n.targets[0], ast.Name):
                res = n.targets[0].id
        if acc is not None:
            res = acc
        rets = [n for n in walk(f.node) if isinstance(n, ast.Return)]
        rok = bool(rets) and all(
            r.value is loop or isinstance(r.value, ast.Name) and
            r.value.id == res for r in rets)
        rep.check(rok, rid, f, 'the list built is what is returned',
                  construct='return',
                  message='%s does not return the list it built: `%s`'
                  % (f.qual, '; '.join(short(r) for r in rets)), loc=f.loc(),
                  history='every pilot')


# ------------------------------------------------------------------------------
# R18.3
#
def _local_alias(f, name):
    """the single plain assignment `name = <expr>` in f (else None)"""
    defs = [n for n in walk(f.node) if isinstance(n, ast.Assign) and
            any(isinstance(t, ast.Name) and t.id == name for t in n.targets)]
    if len(defs) == 1:
        return defs[0].value
    return None


def _is_field(f, expr, name):
    if _field(expr, name):
        return True
    if isinstance(expr, ast.Name):
        v = _local_alias(f, expr.id)
        return v is not None and _field(v, name)
    return False


def _is_len_nl(f, expr):
    if isinstance(expr, ast.Call) and call_name(expr) == 'len' and expr.args:
        return _is_node_list(expr.args[0])
    if isinstance(expr, ast.Name):
        v = _local_alias(f, expr.id)
        return v is not None and _is_len_nl(f, v)
    return False


def r18_3(prog, rep, rid='R18.3'):
    text = ('_filter_nodes: the list is cut to [:requested_nodes] whenever it '
            'is longer; agent and service nodes are pop()ped out of it; the '
            'empty-list raise comes after the last change')
    rep.rule(rid, text, minimum=4)
    f = prog.method(RM[0], RM[1], '_filter_nodes')
    rep.saw(f)
    g = cfg_of(f)
    smap = I.stmt_node_map(g)
    rep.stat('cfg_nodes', len(g.nodes))

    # (a) reduction
    cuts, wrong = [], []
    for n in g.stmt_nodes():
        if n.kind != 'stmt' or not isinstance(n.ast, ast.Assign):
            continue
        if not any(_is_node_list(t) for t in n.ast.targets):
            continue
        v = n.ast.value
        if isinstance(v, ast.Subscript) and _is_node_list(v.value) and \
                isinstance(v.slice, ast.Slice):
            sl = v.slice
            if sl.lower is None and sl.step is None and sl.upper is not None \
                    and _is_field(f, sl.upper, 'requested_nodes'):
                cuts.append(n)
            else:
                wrong.append(n)
    for n in wrong:
        rep.bad(rid, f, n.ast, '_filter_nodes cuts the node list with `%s`, '
                'not with [:requested_nodes]: the pilot offers more (or '
                'other) nodes than it asked for' % short(n.ast.value),
                f.loc(n.ast),
                history='pilot asking for 2 nodes (+1 backup) on a 3-node '
                'allocation: tasks are placed on 3 nodes / on the backup '
                'node')
    # tests comparing len(node_list) with requested_nodes: the edge on which
    # the list is known not to be longer
    skip = []
    for n in g.nodes:
        if n.kind != 'test' or not isinstance(n.ast, ast.Compare) or \
                len(n.ast.ops) != 1:
            continue
        l, r, op = n.ast.left, n.ast.comparators[0], n.ast.ops[0]
        if _is_len_nl(f, l) and _is_field(f, r, 'requested_nodes'):
            if isinstance(op, (ast.Gt, ast.GtE, ast.NotEq)):
                skip.append((n.id, 'F'))
            elif isinstance(op, (ast.LtE, ast.Lt, ast.Eq)):
                skip.append((n.id, 'T'))
        elif _is_field(f, l, 'requested_nodes') and _is_len_nl(f, r):
            if isinstance(op, (ast.Lt, ast.LtE, ast.NotEq)):
                skip.append((n.id, 'F'))
            elif isinstance(op, (ast.GtE, ast.Gt, ast.Eq)):
                skip.append((n.id, 'T'))
    r = g.reachable(g.entry.id, skip_nodes={n.id for n in cuts},
                    skip_edges=skip)
    rep.check(bool(cuts) and g.exit.id not in r, rid, f, 'every path on which '
              'the list may be longer than requested_nodes passes '
              'node_list = node_list[:requested_nodes]', construct='reduction',
              message='_filter_nodes can return with more nodes in '
              'rm_info.node_list than rm_info.requested_nodes: %s'
              % ('there is no [:requested_nodes] cut' if not cuts else
                 'a path avoids the cut although the list may be longer'),
              loc=f.loc(), history='pilot asking for 2 nodes with 1 backup '
              'node: the batch system allocates 3 nodes and all 3 are '
              'offered to the scheduler')

    # (b) reservation by pop()
    c01.r01_8(prog, rep, rid=rid)
    rep.rule(rid, text, minimum=4)         # r01_8 registered its own wording
    # the pops take from the list that is offered
    pops = [smap[id(c)] for c in calls_in(f.node)
            if isinstance(c.func, ast.Attribute) and c.func.attr == 'pop' and
            _is_node_list(c.func.value) and id(c) in smap]

    # (c) the emptiness test
    changes = {n.id for n in cuts} | {n.id for n in pops}
    for kind, stmt in node_list_writes(f):
        n = smap.get(id(stmt))
        if n is not None:
            changes.add(n.id)
    cands, recognised = [], []
    for n in g.nodes:
        if n.kind != 'test':
            continue
        a = n.ast
        mentions = any(_is_node_list(x) for x in walk(a))
        if not mentions:
            continue
        if any(_is_field(f, x, 'requested_nodes') for x in walk(a)):
            continue                          # the reduction guard
        # edge on which the list is empty
        empty = None
        if _is_node_list(a) or _is_len_nl(f, a):
            empty = 'F'
        elif isinstance(a, ast.Compare) and len(a.ops) == 1 and \
                _is_len_nl(f, a.left) and \
                isinstance(a.comparators[0], ast.Constant):
            c, op = a.comparators[0].value, a.ops[0]
            if c == 0 and isinstance(op, ast.Eq) or \
                    c == 1 and isinstance(op, ast.Lt) or \
                    c == 0 and isinstance(op, ast.LtE):
                empty = 'T'
            elif c == 0 and isinstance(op, (ast.Gt, ast.NotEq)) or \
                    c == 1 and isinstance(op, ast.GtE):
                empty = 'F'
        cands.append(n)
        if empty is not None:
            recognised.append((n, empty))
    final = None
    for n, empty in recognised:
        # the empty edge never reaches the normal return ...
        tgt = [e.dst for e in g.succ[n.id] if e.label == empty]
        raises = tgt and g.exit.id not in g.reachable(tgt)
        # ... every normal return passes the test ...
        all_pass = must_pass(g, g.entry.id, g.exit.id, [n.id])
        # ... and nothing changes the list afterwards
        other = [e.dst for e in g.succ[n.id] if e.label in 'TF' and
                 e.label != empty]
        later = g.reachable(other) & changes if other else set()
        if raises and all_pass and not later:
            final = n
    if final is None and cands and not recognised:
        kinds = [short(n.ast, 60) for n in cands]
        if any(isinstance(n.ast, ast.Compare) and
               isinstance(n.ast.ops[0], (ast.Is, ast.IsNot)) for n in cands):
            pass                              # `is None` is not an emptiness test
        else:
            raise AnalysisError('UNRECOGNISED-IDIOM %s: tests on node_list %s'
                                % (f.where, kinds))
    rep.check(final is not None, rid, f, 'the empty-list raise post-dominates '
              'every change of node_list', construct='non-empty',
              message='_filter_nodes can return normally with an empty '
              'rm_info.node_list: there is no emptiness test (raising) which '
              'every return passes after the last pop()/cut',
              loc=f.loc(), history='one-node pilot with an agent layout that '
              'reserves one node for a sub-agent: node_list is empty, the '
              'scheduler waits forever instead of the pilot failing')


# ------------------------------------------------------------------------------
# R18.4
#
def r18_4(prog, rep, table, rid='R18.4'):
    rep.rule(rid, 'the registry write in ResourceManager.__init__ carries the '
             'result of _init_from_scratch (which filters on every path to '
             'its return); nothing else filters or rebuilds; both init paths '
             'feed _set_info', minimum=7)
    base = prog.cls(*RM)
    f = prog.method(RM[0], RM[1], '__init__')
    rep.saw(f)
    g = cfg_of(f)
    smap = I.stmt_node_map(g)
    rep.stat('cfg_nodes', len(g.nodes))

    # registry get / put of 'rm.<name>'
    def is_rm_key(e):
        if isinstance(e, ast.BinOp) and isinstance(e.op, ast.Mod) and \
                isinstance(e.left, ast.Constant) and \
                isinstance(e.left.value, str):
            return e.left.value.startswith('rm.')
        if isinstance(e, ast.JoinedStr) and e.values and \
                isinstance(e.values[0], ast.Constant):
            return str(e.values[0].value).startswith('rm.')
        if isinstance(e, ast.Constant) and isinstance(e.value, str):
            return e.value.startswith('rm.')
        if isinstance(e, ast.Name):
            v = _local_alias(f, e.id)
            return v is not None and is_rm_key(v)
        return False

    puts, gets = [], []
    for c in calls_in(f.node):
        if isinstance(c.func, ast.Attribute) and c.args and \
                is_rm_key(c.args[0]):
            if c.func.attr == 'put':
                puts.append(c)
            elif c.func.attr == 'get':
                gets.append(c)
    for n in walk(f.node):
        if isinstance(n, ast.Assign):
            for t in n.targets:
                if isinstance(t, ast.Subscript) and is_rm_key(t.slice):
                    puts.append(n)
    if len(puts) != 1 or not gets:
        raise AnalysisError('UNRECOGNISED-IDIOM %s: %d registry writes / %d '
                            "reads of 'rm.<name>'" % (f.where, len(puts),
                                                      len(gets)))
    put = puts[0]
    pn = smap[id(put)]
    payload = put.args[1] if isinstance(put, ast.Call) and len(put.args) > 1 \
        else put.value if isinstance(put, ast.Assign) else None
    pvars = {x.id for x in walk(payload) if isinstance(x, ast.Name)} \
        if payload is not None else set()

    # rm_info = self._init_from_scratch()
    inits = [n for n in g.stmt_nodes() if n.kind == 'stmt' and
             isinstance(n.ast, ast.Assign) and
             isinstance(n.ast.value, ast.Call) and
             call_name(n.ast.value) == 'self._init_from_scratch' and
             len(n.ast.targets) == 1 and
             isinstance(n.ast.targets[0], ast.Name)]
    if len(inits) != 1:
        raise AnalysisError('UNRECOGNISED-IDIOM %s: %d assignments from '
                            'self._init_from_scratch()' % (f.where,
                                                           len(inits)))
    init = inits[0]
    var = init.ast.targets[0].id
    dom = must_pass(g, g.entry.id, pn.id, [init.id])
    # no re-binding of var between init and put
    rebinds = [n for n in g.stmt_nodes() if n.kind == 'stmt' and n is not init
               and isinstance(n.ast, ast.Assign) and any(
                   isinstance(t, ast.Name) and t.id == var
                   for t in n.ast.targets)
               and n.id in g.reachable(init.id) and pn.id in
               g.reachable(n.id)]
    rep.check(dom and var in pvars and not rebinds, rid, f, 'the registry '
              'write of rm.<name> is dominated by `%s = '
              'self._init_from_scratch()` and carries %s' % (var, var),
              construct=put,
              message='ResourceManager.__init__ writes `%s` to the registry '
              '%s: the other components of the pilot read a node list which '
              'is not the filtered one' % (
                  short(payload), 'on a path which did not run '
                  '_init_from_scratch()' if not dom else 'which is not the '
                  'result of _init_from_scratch()'), loc=f.loc(put),
              history='agent_0 initialises the RM from scratch, the executor '
              'of a sub-agent reads rm.<name> from the registry: the two see '
              'different node lists')
    # the put happens before anything else looks at the list on this path:
    # between init and put only verification
    between = {n.id for n in g.nodes if n.id in g.reachable(init.id) and
               pn.id in g.reachable(n.id)} - {init.id, pn.id}
    changed = []
    for kind, stmt in node_list_writes(f):
        changed.append(stmt)
    for c in calls_in(f.node):
        if call_name(c) in ('self._filter_nodes', 'self.init_from_scratch'):
            changed.append(c)
    rep.check(not changed, rid, f, '__init__ itself neither filters nor '
              'rebuilds the node list', construct=changed[0] if changed else
              'no-refilter',
              message='ResourceManager.__init__ changes the node list itself '
              '(`%s`): depending on where, the registry copy is stale or the '
              'instances initialised from the registry filter a second time '
              '(agent/service nodes are taken out twice)'
              % (short(changed[0]) if changed else ''),
              loc=f.loc(changed[0]) if changed else f.loc(),
              history='pilot with one sub-agent node: components which read '
              'the RM info from the registry reserve another node, the '
              'components disagree on the nodes offered')
    rep.stat('nodes_between_init_and_put', len(between))

    # both paths end in self._set_info(var)
    sets = [smap[id(c)].id for c in calls_in(f.node)
            if call_name(c) == 'self._set_info' and c.args and
            isinstance(c.args[0], ast.Name) and c.args[0].id == var and
            id(c) in smap]
    rep.check(bool(sets) and must_pass(g, g.entry.id, g.exit.id, sets), rid, f,
              'every path of __init__ hands %s to self._set_info' % var,
              construct='set_info', message='ResourceManager.__init__ can '
              'finish without self._set_info(%s): self.info is not the '
              'RMInfo that was registered' % var, loc=f.loc(),
              history='the scheduler reads rm.info.node_list')
    # the registry read path: value of the get flows into var without filter
    getvars = set()
    for n in g.stmt_nodes():
        if n.kind == 'stmt' and isinstance(n.ast, ast.Assign) and any(
                c in gets for c in calls_in(n.ast)):
            for t in n.ast.targets:
                if isinstance(t, ast.Name):
                    getvars.add(t.id)
    rep.check(var in getvars, rid, f, 'the registry read binds the same '
              'variable (%s) the scratch path binds' % var,
              construct='read-path',
              message='the value read from rm.<name> is bound to %s, but '
              '_set_info receives `%s`: the registry content is ignored'
              % (sorted(getvars), var), loc=f.loc(),
              history='sub-agent components re-derive the node list '
              'themselves and reserve agent nodes again')

    # _init_from_scratch: filters on every path to its return, returns the
    # filtered object
    s = prog.method(RM[0], RM[1], '_init_from_scratch')
    rep.saw(s)
    sg = cfg_of(s)
    ssmap = I.stmt_node_map(sg)
    filt = [c for c in calls_in(s.node)
            if call_name(c) == 'self._filter_nodes']
    fnodes = [ssmap[id(c)].id for c in filt if id(c) in ssmap]
    fargs = {c.args[0].id for c in filt
             if c.args and isinstance(c.args[0], ast.Name)}
    rets = [n for n in walk(s.node) if isinstance(n, ast.Return)]
    rvars = {r.value.id for r in rets if isinstance(r.value, ast.Name)}
    okf = bool(fnodes) and must_pass(sg, sg.entry.id, sg.exit.id, fnodes) and \
        len(fargs) == 1 and rvars == fargs and \
        all(isinstance(r.value, ast.Name) for r in rets)
    rep.check(okf, rid, s, '_init_from_scratch calls self._filter_nodes(x) on '
              'every path to `return x`', construct='filter-before-return',
              message='ResourceManager._init_from_scratch can return an '
              'RMInfo which did not pass self._filter_nodes(): the unfiltered '
              'list (backup, agent and service nodes included) is registered '
              'and offered to tasks', loc=s.loc(),
              history='pilot with nodes=2, backup_nodes=1 and a sub-agent '
              'node: 3 nodes are offered, one of them runs the sub-agent')
    # after filtering, nothing rebuilds the list
    after = set()
    for nid in fnodes:
        after |= sg.reachable([e.dst for e in sg.succ[nid]
                               if e.label != 'exc'])
    late = []
    for kind, stmt in node_list_writes(s):
        n = ssmap.get(id(stmt))
        if n is not None and n.id in after:
            late.append(stmt)
    for c in calls_in(s.node):
        if call_name(c) == 'self.init_from_scratch' and id(c) in ssmap and \
                ssmap[id(c)].id in after:
            late.append(c)
    rep.check(not late, rid, s, 'nothing rebuilds or extends the node list '
              'after _filter_nodes', construct=late[0] if late else
              'no-late-write',
              message='ResourceManager._init_from_scratch changes the node '
              'list after filtering: `%s`' % (short(late[0]) if late else ''),
              loc=s.loc(late[0]) if late else s.loc(),
              history='the reserved agent node is back in the list offered '
              'to tasks')
    # _filter_nodes has no other caller among the RM classes
    others = []
    for K in [base] + sorted(set(table.values()), key=lambda k: k.where):
        for mname, m in sorted(K.methods.items()):
            if m is s:
                continue
            for c in calls_in(m.node, nested=True):
                if call_name(c).endswith('._filter_nodes'):
                    others.append((m, c))
    rep.check(not others, rid, base, '_filter_nodes is called from '
              '_init_from_scratch only', construct=others[0][1] if others
              else 'single-caller',
              message='%s calls _filter_nodes as well: a list which was '
              'already reduced is filtered again, a second set of '
              'agent/service nodes is taken out'
              % (others[0][0].where if others else ''),
              loc=others[0][0].loc(others[0][1]) if others else base.where,
              history='pilot with one sub-agent node on 2 nodes: no node is '
              'left for tasks')


# ------------------------------------------------------------------------------
# R18.5   _parse_nodefile: one entry per distinct node name
#
KEYED_CTORS = {'dict', 'set', 'frozenset', 'Counter', 'collections.Counter',
               'defaultdict', 'collections.defaultdict', 'OrderedDict',
               'collections.OrderedDict', 'dict.fromkeys',
               'OrderedDict.fromkeys', 'collections.OrderedDict.fromkeys'}
PASS_THROUGH = {'sorted', 'list', 'tuple', 'reversed', 'enumerate', 'iter'}
LINE_SPLIT   = {'readlines', 'splitlines', 'split'}
DICT_VIEWS   = {'items', 'keys', 'values', 'most_common'}


class Unrecognised(Exception):
    pass


class Uniq:
    """classifies the expression a list of node tuples is drawn from:
      'keyed'    a collection keyed / deduplicated by its elements (dict,
                 Counter, set, dict.fromkeys, groupby over a sorted sequence,
                 or a list filled once per element of such a collection)
      'perline'  one element per line of the file (duplicates kept)
      'adjacent' itertools.groupby over an unsorted per-line sequence: only
                 adjacent equal lines are merged
    """

    def __init__(self, f):
        self.f = f
        self.g = cfg_of(f)
        self.smap = I.stmt_node_map(self.g)
        self.handles = set()
        for n in walk(f.node, nested=True):
            if isinstance(n, ast.With):
                for i in n.items:
                    if isinstance(i.optional_vars, ast.Name):
                        self.handles.add(i.optional_vars.id)
        self.busy = set()

    def sorted_seq(self, e, at):
        if isinstance(e, ast.Call) and call_name(e) == 'sorted':
            return True
        if isinstance(e, ast.Name):
            defs = self.defs(e.id)
            if defs and all(isinstance(v, ast.Call) and
                            call_name(v) == 'sorted' for v in defs):
                return True
            sorts = [self.smap[id(c)].id for c in calls_in(self.f.node)
                     if call_name(c) == e.id + '.sort' and id(c) in self.smap]
            node = self.smap.get(id(at))
            if sorts and node is not None and \
                    must_pass(self.g, self.g.entry.id, node.id, sorts):
                return True
        return False

    def defs(self, name):
        out = []
        for n in walk(self.f.node, nested=True):
            if isinstance(n, ast.Assign) and any(
                    isinstance(t, ast.Name) and t.id == name
                    for t in n.targets):
                out.append(n.value)
            elif isinstance(n, ast.AnnAssign) and n.value is not None and \
                    isinstance(n.target, ast.Name) and n.target.id == name:
                out.append(n.value)
        return out

    @staticmethod
    def join(kinds):
        kinds = set(kinds)
        for k in ('adjacent', 'perline', 'keyed'):
            if k in kinds:
                return k
        raise Unrecognised('nothing to classify')

    def enclosing_loop(self, call):
        """innermost For whose body contains `call`"""
        best = None
        for n in walk(self.f.node, nested=True):
            if isinstance(n, ast.For) and any(x is call for s in n.body
                                              for x in walk(s, nested=True)):
                if best is None or any(x is n for x in walk(best,
                                                            nested=True)):
                    best = n
        return best

    def classify(self, e):
        if isinstance(e, (ast.Dict, ast.DictComp, ast.SetComp, ast.Set)):
            return 'keyed'
        if isinstance(e, (ast.ListComp, ast.GeneratorExp)):
            if len(e.generators) != 1:
                raise Unrecognised(short(e))
            return self.classify(e.generators[0].iter)
        if isinstance(e, ast.Call):
            cn = call_name(e)
            base = cn.split('.')[-1]
            if base == 'groupby' and e.args:
                if kwarg(e, 'key', 1) is not None:
                    raise Unrecognised('groupby with a key function: %s'
                                       % short(e))
                s = e.args[0]
                if self.sorted_seq(s, e):
                    return 'keyed'
                k = self.classify(s)
                return 'keyed' if k == 'keyed' else 'adjacent'
            if cn in KEYED_CTORS:
                return 'keyed'
            if cn in PASS_THROUGH and e.args:
                return self.classify(e.args[0])
            if isinstance(e.func, ast.Attribute):
                if e.func.attr in DICT_VIEWS:
                    return self.classify(e.func.value)
                if e.func.attr in LINE_SPLIT:
                    return 'perline'
            raise Unrecognised(short(e))
        if isinstance(e, ast.Name):
            if e.id in self.handles:
                return 'perline'
            if e.id in self.busy:
                raise Unrecognised('recursive definition of %s' % e.id)
            self.busy.add(e.id)
            try:
                defs = self.defs(e.id)
                if not defs:
                    raise Unrecognised('%s has no definition' % e.id)
                kinds = []
                grows = False
                for v in defs:
                    empty_list = isinstance(v, ast.List) and not v.elts or \
                        isinstance(v, ast.Call) and call_name(v) == 'list' \
                        and not v.args
                    if empty_list:
                        grows = True
                        continue
                    kinds.append(self.classify(v))
                if grows:
                    fed = False
                    for c in calls_in(self.f.node, nested=True):
                        if not isinstance(c.func, ast.Attribute) or \
                                unparse(c.func.value) != e.id:
                            continue
                        if c.func.attr in ('append', 'insert'):
                            loop = self.enclosing_loop(c)
                            if loop is None:
                                raise Unrecognised('%s outside of a loop'
                                                   % short(c))
                            kinds.append(self.classify(loop.iter))
                            fed = True
                        elif c.func.attr == 'extend' and c.args:
                            kinds.append(self.classify(c.args[0]))
                            fed = True
                    for n in walk(self.f.node, nested=True):
                        if isinstance(n, ast.AugAssign) and \
                                isinstance(n.target, ast.Name) and \
                                n.target.id == e.id:
                            kinds.append(self.classify(n.value))
                            fed = True
                    if not fed:
                        raise Unrecognised('list %s is never filled' % e.id)
                return self.join(kinds)
            finally:
                self.busy.discard(e.id)
        if isinstance(e, ast.Subscript) and isinstance(e.slice, ast.Slice):
            return self.classify(e.value)
        raise Unrecognised(short(e))


def r18_5(prog, rep, table, rid='R18.5'):
    rep.rule(rid, '_parse_nodefile returns one tuple per distinct node name: '
             'the returned list is drawn from a collection keyed by the line '
             '(dict / Counter / set / groupby over a sorted sequence), not '
             'from the lines themselves', minimum=1)
    base = prog.cls(*RM)
    funcs = {}
    for K in [base] + sorted(table.values(), key=lambda k: k.where):
        f = prog.find_method(K, '_parse_nodefile')
        if f is not None:
            funcs[f.where] = f
    if not funcs:
        raise AnalysisError('anchor ResourceManager._parse_nodefile not found')
    for where, f in sorted(funcs.items()):
        rep.saw(f)
        u = Uniq(f)
        n = 0
        for r in walk(f.node):
            if not isinstance(r, ast.Return) or r.value is None:
                continue
            v = r.value
            if isinstance(v, (ast.List, ast.Tuple)) and not v.elts or \
                    isinstance(v, ast.Constant) and v.value is None:
                continue                       # "file not parsable"
            n += 1
            try:
                kind = u.classify(v)
            except Unrecognised as e:
                raise AnalysisError('UNRECOGNISED-IDIOM %s: cannot tell how '
                                    '`%s` is drawn from the node file (%s)'
                                    % (f.where, short(v), e))
            rep.check(kind == 'keyed', rid, f, '`%s` is drawn from a '
                      'collection keyed by node name' % short(v, 60),
                      construct='unique:%s' % kind,
                      message='%s builds the list it returns %s: a host whose '
                      'lines are not adjacent in the node file yields several '
                      'entries (each with a too small slot count), so the '
                      'pilot offers the same node more than once'
                      % (f.qual, 'with itertools.groupby over the unsorted '
                         'lines, which merges only adjacent equal lines'
                         if kind == 'adjacent' else 'with one element per '
                         'line of the file, without merging repeated host '
                         'names'), loc=f.loc(r),
                      history='round-robin node file n1 n2 n3 n1 n2 n3 (one '
                      'name per line): 6 one-slot entries with duplicate '
                      'names instead of [(n1, 2), (n2, 2), (n3, 2)]; Torque '
                      'detects cores_per_node=1 and lists every host twice')
        if not n:
            raise AnalysisError('UNRECOGNISED-IDIOM %s returns no list'
                                % f.where)


# ------------------------------------------------------------------------------
#
def run(prog, rep, tier):
    rep.decided = ('every resource manager of the factory table obtains '
        'rm_info.node_list from _get_node_list on every path to its return '
        'and writes it nowhere else; _get_node_list makes one entry per node '
        'tuple with the enumerate() index, the tuple\'s name and core count, '
        'rm_info.gpus_per_node GPUs, all FREE; _filter_nodes cuts to '
        '[:requested_nodes] whenever the list is longer, moves agent/service '
        'nodes out by pop() and raises on an empty list after the last '
        'change; the registry receives the filtered RMInfo and instances '
        'initialised from the registry do not filter again; _parse_nodefile '
        'draws its result from a collection keyed by node name (one entry '
        'per distinct host whatever the order of the lines).')
    rep.undecided = ('slot counting and name syntax of node files for '
        'arbitrary contents (LSF login/batch filtering, PBSPro vnodes); that '
        'the batch system allocated requested+backup nodes; blocked cores '
        '(decided under C01 R01.7).')
    rep.assumptions = [
        'the table of ResourceManager.get_manager is the complete set of '
        'resource managers (C17 checks that every shipped config names one '
        'of them)',
        'list.pop() / slicing semantics of python lists; the registry '
        'returns what was put (radical.utils, trusted)',
        'subclasses outside the package do not override _get_node_list, '
        '_filter_nodes or _init_from_scratch',
    ]
    table = rm_table(prog, rep)
    builders = r18_1(prog, rep, table)
    r18_2(prog, rep, builders)
    r18_3(prog, rep)
    r18_4(prog, rep, table)
    r18_5(prog, rep, table)
    if tier == 'thorough':
        # sweep: any other class in the package deriving from ResourceManager
        # (not in the table) obeys R18.1 as well
        base = prog.cls(*RM)
        extra = {k.name: k for k in prog.subclasses(base, strict=True)
                 if k not in table.values()}
        r18_1(prog, rep, extra, rid='R18.1s', minimum=0)
        rep.stat('sweep_classes', len(extra))


# ------------------------------------------------------------------------------
# self-test variants
#
_B   = 'agent/resource_manager/base.py'
_RMD = 'agent/resource_manager/'
_GNL = "        rm_info.node_list = self._get_node_list(nodes, rm_info)\n"
_CUT = "            rm_info.node_list   = rm_info.node_list[:rm_info.requested_nodes]\n"
_EMPTY = ("        # check if we can do any work\n"
          "        if not rm_info.node_list:\n"
          "            raise RuntimeError('ResourceManager has no nodes left to run tasks')\n")

_IMP  = "import math\nimport os\n"
_PNF  = ("            nodes = dict()\n"
         "            with ru.ru_open(fname, 'r') as fin:\n"
         "                for line in fin.readlines():\n"
         "                    node = line.strip()\n"
         "                    assert ' ' not in node\n"
         "                    if node in nodes: nodes[node] += 1\n"
         "                    else            : nodes[node]  = 1\n"
         "\n"
         "            if cpn:\n"
         "                for node in list(nodes.keys()):\n"
         "                    nodes[node] = cpn\n"
         "\n"
         "            # convert node dict into tuple list\n"
         "            return [(node, cpn * smt) for node, cpn in nodes.items()]\n")
_READ = ("            with ru.ru_open(fname, 'r') as fin:\n"
         "                lines = [line.strip() for line in fin]\n\n")


MUTATIONS = [
    dict(name='R18.1 Debug RM builds the list by hand, all indices 0', rules=('R18.1',), edits=[
        (_RMD + 'debug.py', _GNL,
         "        rm_info.node_list = [{'name': n[0], 'index': 0,\n"
         "                              'cores': [None] * n[1], 'gpus': [],\n"
         "                              'lfs': 0, 'mem': 0} for n in nodes]\n")]),
    dict(name='R18.1 Slurm RM appends a node to the built list', rules=('R18.1',), edits=[
        (_RMD + 'slurm.py', _GNL, _GNL + "        rm_info.node_list.append(dict(rm_info.node_list[0]))\n")]),
    dict(name='R18.1 Torque RM assigns the list only for a non-empty node file', rules=('R18.1',), edits=[
        (_RMD + 'torque.py', _GNL, "        if nodes:\n    " + _GNL)]),
    dict(name='R18.1 Cobalt RM builds the list against a fresh RMInfo', rules=('R18.1',), edits=[
        (_RMD + 'cobalt.py', _GNL, "        rm_info.node_list = self._get_node_list(nodes, RMInfo())\n")]),
    dict(name='R18.1 CCM RM forgets to return the RMInfo', rules=('R18.1',), edits=[
        (_RMD + 'ccm.py', _GNL + "\n        return rm_info\n", _GNL)]),
    dict(name='R18.1 Yarn RM no longer delegates to Fork', rules=('R18.1',), edits=[
        (_RMD + 'yarn.py', "        super().init_from_scratch(rm_info)\n", "")]),
    dict(name='R18.1 LSF RM renumbers the nodes from 1 after building', rules=('R18.1',), edits=[
        (_RMD + 'lsf.py', _GNL, _GNL + "        for node in rm_info.node_list:\n            node['index'] += 1\n"
                                       "        rm_info.node_list = sorted(rm_info.node_list, key=lambda n: n['name'])\n")]),
    dict(name='R18.1 PBSPro RM returns a copy made before the list exists', rules=('R18.1',), edits=[
        (_RMD + 'pbspro.py', "        nodes = None\n\n        try:", "        orig  = RMInfo(rm_info)\n        nodes = None\n\n        try:"),
        (_RMD + 'pbspro.py', _GNL + "\n        return rm_info\n", _GNL + "\n        return orig\n")]),
    dict(name='R18.2 constant node index', rules=('R18.2',), edits=[
        (_B, "                      'index' : idx,", "                      'index' : 0,")]),
    dict(name='R18.2 first node dropped from the enumeration', rules=('R18.2',), edits=[
        (_B, "                     for idx, node in enumerate(nodes)]", "                     for idx, node in enumerate(nodes[1:])]")]),
    dict(name='R18.2 index taken from the core count', rules=('R18.2',), edits=[
        (_B, "                      'index' : idx,", "                      'index' : node[1],")]),
    dict(name='R18.2 GPU vector sized by the core count', rules=('R18.2',), edits=[
        (_B, "                      'gpus'  : [rpc.FREE] * rm_info.gpus_per_node,", "                      'gpus'  : [rpc.FREE] * node[1],")]),
    dict(name='R18.2 core vector sized by cores_per_node of the config', rules=('R18.2',), edits=[
        (_B, "                      'cores' : [rpc.FREE] * node[1],", "                      'cores' : [rpc.FREE] * rm_info.cores_per_node,")],
         note='node tuples carry cpn * smt (LSF, PBSPro nodefile): rm_info.cores_per_node is not the size of the node'),
    dict(name='R18.2 core vector initialised BUSY', rules=('R18.2',), edits=[
        (_B, "                      'cores' : [rpc.FREE] * node[1],", "                      'cores' : [rpc.BUSY] * node[1],")]),
    dict(name='R18.2 nodes with the same name filtered from the list', rules=('R18.2',), edits=[
        (_B, "                     for idx, node in enumerate(nodes)]", "                     for idx, node in enumerate(nodes)\n                     if node[0] != 'localhost' or not idx]")]),
    dict(name='R18.3 reduction slice dropped', rules=('R18.3',), edits=[
        (_B, _CUT, "")]),
    dict(name='R18.3 reduction keeps the tail instead of the head', rules=('R18.3',), edits=[
        (_B, _CUT, "            rm_info.node_list   = rm_info.node_list[rm_info.requested_nodes:]\n")]),
    dict(name='R18.3 reduction keeps the backup nodes', rules=('R18.3',), edits=[
        (_B, _CUT, "            rm_info.node_list   = rm_info.node_list[:rm_info.requested_nodes + rm_info.backup_nodes]\n")]),
    dict(name='R18.3 reduction guard reversed', rules=('R18.3',), edits=[
        (_B, "        if len(rm_info.node_list) > rm_info.requested_nodes:", "        if len(rm_info.node_list) < rm_info.requested_nodes:")]),
    dict(name='R18.3 reduction only when backup nodes were requested', rules=('R18.3',), edits=[
        (_B, "        if len(rm_info.node_list) > rm_info.requested_nodes:", "        if rm_info.backup_nodes and len(rm_info.node_list) > rm_info.requested_nodes:")]),
    dict(name='R18.3 agent node copied, not moved', rules=('R18.3',), edits=[
        (_B, "                    rm_info.agent_node_list.append(rm_info.node_list.pop())", "                    rm_info.agent_node_list.append(rm_info.node_list[-1])")]),
    dict(name='R18.3 service node taken from the agent nodes', rules=('R18.3',), edits=[
        (_B, "                    rm_info.service_node_list.append(rm_info.node_list.pop())", "                    rm_info.service_node_list.append(rm_info.agent_node_list.pop())")]),
    dict(name='R18.3 emptiness check removed', rules=('R18.3',), edits=[
        (_B, _EMPTY, "")]),
    dict(name='R18.3 emptiness check before the reservation', rules=('R18.3',), edits=[
        (_B, _EMPTY, ""),
        (_B, "        agent_nodes   = 0\n        service_nodes = 0\n", "        agent_nodes   = 0\n        service_nodes = 0\n\n" + _EMPTY)]),
    dict(name='R18.3 emptiness check tests for None', rules=('R18.3',), edits=[
        (_B, "        if not rm_info.node_list:\n            raise RuntimeError('ResourceManager has no nodes left", "        if rm_info.node_list is None:\n            raise RuntimeError('ResourceManager has no nodes left")]),
    dict(name='R18.3 empty list only logged', rules=('R18.3',), edits=[
        (_B, "            raise RuntimeError('ResourceManager has no nodes left to run tasks')", "            self._log.error('ResourceManager has no nodes left to run tasks')")]),
    dict(name='R18.4 registry written before filtering', rules=('R18.4',), edits=[
        (_B, "        self._filter_nodes(rm_info)\n\n        # add launch method", "        # add launch method"),
        (_B, "            reg.put('rm.%s' % self.name.lower(), rm_info.as_dict())\n", "            reg.put('rm.%s' % self.name.lower(), rm_info.as_dict())\n            self._filter_nodes(rm_info)\n")]),
    dict(name='R18.4 filtering only when backup nodes exist', rules=('R18.4',), edits=[
        (_B, "        self._filter_nodes(rm_info)\n\n        # add launch method", "        if rm_info.backup_nodes:\n            self._filter_nodes(rm_info)\n\n        # add launch method")]),
    dict(name='R18.4 registry written on both paths', rules=('R18.4',), edits=[
        (_B, "            reg.put('rm.%s' % self.name.lower(), rm_info.as_dict())\n\n        reg.close()", "        reg.put('rm.%s' % self.name.lower(), rm_info.as_dict())\n        reg.close()")]),
    dict(name='R18.4 registry read path filters again', rules=('R18.4',), edits=[
        (_B, "            rm_info = RMInfo(rm_info)\n            rm_info.verify()\n", "            rm_info = RMInfo(rm_info)\n            self._filter_nodes(rm_info)\n            rm_info.verify()\n")]),
    dict(name='R18.4 Fork RM filters its own list as well', rules=('R18.4',), edits=[
        (_RMD + 'fork.py', _GNL, _GNL + "        self._filter_nodes(rm_info)\n")]),
    dict(name='R18.4 registry receives a fresh RMInfo', rules=('R18.4',), edits=[
        (_B, "            reg.put('rm.%s' % self.name.lower(), rm_info.as_dict())", "            reg.put('rm.%s' % self.name.lower(), RMInfo().as_dict())")]),
    dict(name='R18.4 only the scratch path sets self.info', rules=('R18.4',), edits=[
        (_B, "            reg.put('rm.%s' % self.name.lower(), rm_info.as_dict())\n\n        reg.close()\n        self._set_info(rm_info)\n", "            reg.put('rm.%s' % self.name.lower(), rm_info.as_dict())\n            self._set_info(rm_info)\n\n        reg.close()\n")]),
    dict(name='R18.4 RM list rebuilt after filtering', rules=('R18.4',), edits=[
        (_B, "        # add launch method information to rm_info\n", "        rm_info = self.init_from_scratch(rm_info)\n        # add launch method information to rm_info\n")]),
    dict(name='R18.5 slots counted per adjacent block with groupby (seed C18-b)', rules=('R18.5',), edits=[
        (_B, _IMP, "import itertools\n" + _IMP),
        (_B, _PNF, _READ +
         "            # all slots of a node are listed in one block: count block sizes\n"
         "            nodes = list()\n"
         "            for node, slots in itertools.groupby(lines):\n"
         "                assert ' ' not in node\n"
         "                nodes.append((node, cpn or len(list(slots))))\n\n"
         "            return [(node, slots * smt) for node, slots in nodes]\n")]),
    dict(name='R18.5 groupby over the raw lines inside the returned comprehension', rules=('R18.5',), edits=[
        (_B, _IMP, "import itertools\n" + _IMP),
        (_B, _PNF, _READ +
         "            return [(node, (cpn or len(list(grp))) * smt)\n"
         "                    for node, grp in itertools.groupby(lines)]\n")]),
    dict(name='R18.5 one tuple per line when cpn is given', rules=('R18.5',), edits=[
        (_B, _PNF, _READ +
         "            if cpn:\n"
         "                # one line per node: every line is a node\n"
         "                return [(node, cpn * smt) for node in lines]\n\n"
         "            nodes = dict()\n"
         "            for node in lines:\n"
         "                nodes[node] = nodes.get(node, 0) + 1\n"
         "            return [(node, cnt * smt) for node, cnt in nodes.items()]\n")]),
    dict(name='R18.5 counts kept in a dict but the result follows the lines', rules=('R18.5',), edits=[
        (_B, "            return [(node, cpn * smt) for node, cpn in nodes.items()]\n",
             "            return [(line.strip(), nodes[line.strip()] * smt)\n"
             "                    for line in ru.ru_open(fname, 'r').readlines()]\n")]),
    dict(name='R18.5 groupby after sorting a different list', rules=('R18.5',), edits=[
        (_B, _IMP, "import itertools\n" + _IMP),
        (_B, _PNF, _READ +
         "            names = sorted(set(lines))\n"
         "            self._log.debug('hosts: %s', names)\n"
         "            nodes = list()\n"
         "            for node, slots in itertools.groupby(lines):\n"
         "                nodes.append((node, cpn or len(list(slots))))\n\n"
         "            return [(node, slots * smt) for node, slots in nodes]\n")]),
]

SILENT = [
    dict(name='node list built into a temporary first', edits=[
        (_RMD + 'slurm.py', _GNL, "        node_list = self._get_node_list(nodes, rm_info)\n        rm_info.node_list = node_list\n")]),
    dict(name='_get_node_list called with keywords', edits=[
        (_RMD + 'torque.py', _GNL, "        rm_info.node_list = self._get_node_list(nodes=nodes, rm_info=rm_info)\n")]),
    dict(name='node_list assigned by subscript', edits=[
        (_RMD + 'cobalt.py', _GNL, "        rm_info['node_list'] = self._get_node_list(nodes, rm_info)\n")]),
    dict(name='Yarn keeps the value super() returns', edits=[
        (_RMD + 'yarn.py', "        super().init_from_scratch(rm_info)\n", "        rm_info = super().init_from_scratch(rm_info)\n")]),
    dict(name='_get_node_list as an append loop', edits=[
        (_B, "        node_list = [{'name'  : node[0],\n                      'index' : idx,\n                      'cores' : [rpc.FREE] * node[1],\n                      'gpus'  : [rpc.FREE] * rm_info.gpus_per_node,\n                      'lfs'   : rm_info.lfs_per_node,\n                      'mem'   : rm_info.mem_per_node}\n                     for idx, node in enumerate(nodes)]\n",
             "        node_list = list()\n        for i, n in enumerate(nodes):\n            node_list.append({'name'  : n[0],\n                              'index' : i,\n                              'cores' : n[1] * [rpc.FREE],\n                              'gpus'  : [rpc.FREE] * rm_info['gpus_per_node'],\n                              'lfs'   : rm_info.lfs_per_node,\n                              'mem'   : rm_info.mem_per_node})\n")]),
    dict(name='reduction guard from the other side', edits=[
        (_B, "        if len(rm_info.node_list) > rm_info.requested_nodes:", "        if rm_info.requested_nodes < len(rm_info.node_list):")]),
    dict(name='reduction through a local for the requested size', edits=[
        (_B, _CUT, "            n_req = rm_info.requested_nodes\n            rm_info.node_list   = rm_info.node_list[:n_req]\n")]),
    dict(name='reduction guard in early-skip form', edits=[
        (_B, "        if len(rm_info.node_list) > rm_info.requested_nodes:", "        if not len(rm_info.node_list) <= rm_info.requested_nodes:")]),
    dict(name='emptiness test by length', edits=[
        (_B, "        if not rm_info.node_list:\n            raise RuntimeError('ResourceManager has no nodes left", "        if len(rm_info.node_list) == 0:\n            raise RuntimeError('ResourceManager has no nodes left")]),
    dict(name='agent node popped into a temporary', edits=[
        (_B, "                    rm_info.agent_node_list.append(rm_info.node_list.pop())", "                    node = rm_info.node_list.pop()\n                    rm_info.agent_node_list.append(node)")]),
    dict(name='registry key through a local', edits=[
        (_B, "        rm_info = reg.get('rm.%s' % self.name.lower())\n", "        key     = 'rm.%s' % self.name.lower()\n        rm_info = reg.get(key)\n"),
        (_B, "            reg.put('rm.%s' % self.name.lower(), rm_info.as_dict())", "            reg.put(key, rm_info.as_dict())")]),
    dict(name='scratch branch first', edits=[
        (_B, "        if from_registry:\n\n            self._log.debug('RM init from registry')\n            rm_info = RMInfo(rm_info)\n            rm_info.verify()\n\n        else:\n",
             "        if from_registry:\n            self._log.debug('RM init from registry')\n            rm_info = RMInfo(rm_info)\n            rm_info.verify()\n\n        if not from_registry:\n")]),
    dict(name='verification before the registry write dropped to _set_info', edits=[
        (_B, "            rm_info = self._init_from_scratch()\n            rm_info.verify()\n", "            rm_info = self._init_from_scratch()\n")]),
    dict(name='slots counted with collections.Counter', edits=[
        (_B, _IMP, "import collections\n" + _IMP),
        (_B, _PNF, _READ +
         "            nodes = collections.Counter(lines)\n"
         "            if cpn:\n"
         "                for node in list(nodes.keys()):\n"
         "                    nodes[node] = cpn\n\n"
         "            return [(node, cpn * smt) for node, cpn in nodes.items()]\n")]),
    dict(name='lines sorted before groupby', edits=[
        (_B, _IMP, "import itertools\n" + _IMP),
        (_B, _PNF, _READ +
         "            nodes = list()\n"
         "            for node, slots in itertools.groupby(sorted(lines)):\n"
         "                assert ' ' not in node\n"
         "                nodes.append((node, cpn or len(list(slots))))\n\n"
         "            return [(node, slots * smt) for node, slots in nodes]\n")]),
    dict(name='lines sorted in place before groupby', edits=[
        (_B, _IMP, "import itertools\n" + _IMP),
        (_B, _PNF, _READ +
         "            lines.sort()\n"
         "            return [(node, (cpn or len(list(grp))) * smt)\n"
         "                    for node, grp in itertools.groupby(lines)]\n")]),
    dict(name='one line per node: dict.fromkeys with cpn, else a count', edits=[
        (_B, _PNF, _READ +
         "            if cpn:\n"
         "                nodes = dict.fromkeys(lines, cpn)\n"
         "            else:\n"
         "                nodes = {node: lines.count(node) for node in lines}\n\n"
         "            return [(node, cnt * smt) for node, cnt in nodes.items()]\n")]),
    dict(name='dict counting with get(), result list built by a loop', edits=[
        (_B, "                    if node in nodes: nodes[node] += 1\n                    else            : nodes[node]  = 1\n", "                    nodes[node] = nodes.get(node, 0) + 1\n"),
        (_B, "            return [(node, cpn * smt) for node, cpn in nodes.items()]\n",
             "            result = list()\n            for node, cnt in nodes.items():\n                result.append((node, cnt * smt))\n            return result\n")]),
]
