"""C13  A dying pilot fails its own tasks and only those  (DESIGN 5 / C13)

R13.1  in TaskManager._pilot_state_cb the update that sets a task FAILED is
       control dependent (right polarity) on
         (a) the pilot's state being final,
         (b) a comparison of the task's pilot binding with that pilot's uid,
         (c) the task's state not being final,
       on nothing else that depends on the task or the pilot, and the
       explanation it carries is built from the pilot's uid.
R13.2  TaskManager.add_pilots registers _pilot_state_cb for the pilot state
       metric on every pilot object it is given.
"""

import ast

from ..model import (walk, dotted, call_name, kwarg, unparse, short, UNKNOWN,
                     root_name, AnalysisError, calls_in, stores_in_target)
from ..cfg import cfg_of
from ..flow import Deps, guards, loop_slice
from .. import idioms as I
from .c15 import StateEval, Uneval, single_assign
from .c12 import defs_reaching

TMGR  = ('task_manager.py', 'TaskManager')
PILOT = ('pilot.py', 'Pilot')


def _consts(prog):
    final  = prog.const('states.py', 'FINAL')
    failed = prog.const('states.py', 'FAILED')
    return final, failed


# ------------------------------------------------------------------------------
#
def _dict_of(f, expr):
    """dict literal denoted by expr (the literal itself or a local name all of
    whose assignments are dict literals)"""
    if isinstance(expr, ast.Dict):
        return [expr]
    if isinstance(expr, ast.Name):
        out = []
        for n in walk(f.node):
            if isinstance(n, ast.Assign) and any(
                    isinstance(t, ast.Name) and t.id == expr.id
                    for t in n.targets):
                if not isinstance(n.value, ast.Dict):
                    return None
                out.append(n.value)
        return out or None
    return None


def _dict_get(d, key):
    for k, v in zip(d.keys, d.values):
        if isinstance(k, ast.Constant) and k.value == key:
            return v
    return None


def failing_updates(prog, f, failed):
    """[(call, task variable, [dict literals])]: `<task>._update(<dict with
    'state': rps.FAILED>)`"""
    out = []
    for c in calls_in(f.node):
        if not (isinstance(c.func, ast.Attribute) and c.func.attr == '_update'
                and c.args):
            continue
        dicts = _dict_of(f, c.args[0])
        if dicts is None:
            continue
        hit = []
        for d in dicts:
            v = _dict_get(d, 'state')
            if v is not None and prog.fold(f.module, v, f.cls) == failed:
                hit.append(d)
        if not hit:
            continue
        recv = c.func.value
        if not isinstance(recv, ast.Name):
            raise AnalysisError('UNRECOGNISED-IDIOM %s: the receiver of `%s` '
                                'is not a plain task variable'
                                % (f.where, short(c, 60)))
        out.append((c, recv.id, hit))
    return out


def _enclosing_for(g, node, name):
    """innermost enclosing `for` head binding `name`"""
    for h in reversed(node.loops):
        hn = g.nodes[h]
        if hn.kind == 'for' and name in stores_in_target(hn.ast.target):
            return hn
    return None


def _attr_on(expr, names, attrs):
    """expr is <name>.<attr> / <name>['attr'] for name in names"""
    if isinstance(expr, ast.Attribute) and expr.attr in attrs and \
            isinstance(expr.value, ast.Name) and expr.value.id in names:
        return True
    if isinstance(expr, ast.Subscript) and isinstance(expr.slice, ast.Constant) \
            and expr.slice.value in attrs and \
            isinstance(expr.value, ast.Name) and expr.value.id in names:
        return True
    return False


def _reads_attr_on(expr, names, attrs):
    return any(_attr_on(n, names, attrs) for n in walk(expr, nested=True))


class Roles:
    """what an expression of _pilot_state_cb denotes"""

    def __init__(self, f, tvars, pvar):
        self.d = Deps(f.node, implicit=False)
        self.tvars = set(tvars)
        self.pvar = pvar
        self.allowed = {}

    def _deps(self, expr):
        return self.d.expr_depends(expr)

    def is_task_pilot(self, e):
        return _attr_on(e, self.tvars, ('pilot', '_pilot'))

    def is_task_state(self, e):
        return _attr_on(e, self.tvars, ('state', '_state'))

    def is_pilot_uid(self, e):
        if _attr_on(e, {self.pvar}, ('uid', '_uid')):
            return True
        if isinstance(e, ast.Name) and e.id not in self.tvars:
            dep = self._deps(e)
            return bool(dep & {self.pvar + '.uid', self.pvar + '._uid',
                               "%s['uid']" % self.pvar}) and \
                not (dep & self.tvars)
        return False

    def is_pilot_state(self, e):
        if _attr_on(e, {self.pvar}, ('state', '_state')):
            return True
        if isinstance(e, ast.Name) and e.id not in self.tvars:
            dep = self._deps(e)
            return bool(dep & {self.pvar + '.state', self.pvar + '._state',
                               "%s['state']" % self.pvar}) and \
                not (dep & self.tvars)
        return False

    def about_task(self, e):
        dep = self._deps(e)
        return bool(dep & self.tvars)

    def about_pilot(self, e):
        dep = self._deps(e)
        return self.pvar in dep


def _by_domain(prog, f, roles, atom, pol, final):
    """evaluate a test on the task's / the pilot's state for every state of
    the folded value table: the set of states for which the FAILED update
    goes ahead decides the verdict"""
    for kind, pred, tab in (
            ('nonfinal', roles.is_task_state, '_task_state_values'),
            ('pilotfinal', roles.is_pilot_state, '_pilot_state_values')):
        if not any(pred(n) for n in walk(atom, nested=True)):
            continue
        if kind == 'nonfinal' and roles.about_pilot(atom) or \
                kind == 'pilotfinal' and roles.about_task(atom):
            continue
        table = prog.const('states.py', tab)
        domain = [s for s in table if s is not None]
        ev = StateEval(prog, f, pred, resolve=lambda n: single_assign(f, n))
        try:
            allowed = {s for s in domain if ev.holds(atom, s) == pol}
        except Uneval:
            return None
        roles.allowed[id(atom)] = allowed
        fin = set(final)
        if kind == 'nonfinal':
            lost = sorted(set(domain) - fin - allowed)
            if lost:
                return (kind, 'wrong', 'the update is skipped for the '
                        'non-final state(s) %s: tasks of the ending pilot in '
                        'those states are not reported FAILED'
                        % ', '.join(lost))
            if not (fin & allowed):
                return (kind, 'ok', '')
            return (kind, 'partial', 'the final state(s) %s are still updated'
                    % ', '.join(sorted(fin & allowed)))
        lost = sorted(fin - allowed)
        if lost:
            return (kind, 'wrong', 'the tasks of a pilot that ends %s are not '
                    'failed' % ', '.join(lost))
        if allowed == fin:
            return (kind, 'ok', '')
        return (kind, 'partial', 'a pilot in the non-final state(s) %s takes '
                'its tasks down' % ', '.join(sorted(allowed - fin)))
    return None


def classify(prog, f, roles, atom, pol, final):
    """(kind, verdict, text): kind in binding / nonfinal / pilotfinal / other /
    None (unrelated); verdict 'ok' | 'wrong' | 'unknown'"""
    if isinstance(atom, (ast.Name, ast.Attribute, ast.Constant)):
        # a bare truth test (`if state:`, `if task.pilot:`) says nothing about
        # finality or about which pilot the task is bound to
        return (None, 'ok', '')
    if isinstance(atom, ast.Compare) and len(atom.ops) == 1:
        op = atom.ops[0]
        l, r = atom.left, atom.comparators[0]
        # (b) binding
        for a, b in ((l, r), (r, l)):
            if roles.is_task_pilot(a) and roles.is_pilot_uid(b):
                if isinstance(op, (ast.Eq, ast.Is)):
                    return ('binding', 'ok' if pol else 'wrong', '')
                if isinstance(op, (ast.NotEq, ast.IsNot)):
                    return ('binding', 'wrong' if pol else 'ok', '')
                return ('binding', 'unknown', '')
        if roles.is_task_pilot(l) and isinstance(op, (ast.In, ast.NotIn)) and \
                isinstance(r, (ast.List, ast.Tuple, ast.Set)) and \
                len(r.elts) == 1 and roles.is_pilot_uid(r.elts[0]):
            good = isinstance(op, ast.In) == pol
            return ('binding', 'ok' if good else 'wrong', '')
        # (a) / (c) final tests, decided over the finite state tables
        r = _by_domain(prog, f, roles, atom, pol, final)
        if r is not None:
            return r
        l, r = atom.left, atom.comparators[0]
        for kind, pred in (('nonfinal', roles.is_task_state),
                           ('pilotfinal', roles.is_pilot_state)):
            if not pred(l):
                continue
            v = prog.fold(f.module, r, f.cls)
            if isinstance(op, (ast.In, ast.NotIn)) and v is not UNKNOWN and \
                    isinstance(v, (list, tuple, set)):
                try:
                    same = set(v) == set(final)
                except TypeError:
                    same = False
                is_final = isinstance(op, ast.In) == pol
                want = (kind == 'pilotfinal')
                if not same:
                    return (kind, 'wrong', 'it compares with %s, which is not '
                            'the set of final states' % sorted(map(str, v)))
                return (kind, 'ok' if is_final == want else 'wrong', '')
            if isinstance(op, (ast.Eq, ast.NotEq)) and v is not UNKNOWN and \
                    isinstance(v, str):
                return (kind, 'wrong', 'it compares with the single state %r '
                        'instead of the set of final states' % v)
            return (kind, 'unknown', '')
    if _reads_attr_on(atom, roles.tvars, ('pilot', '_pilot')):
        return ('binding', 'unknown', '')
    if _reads_attr_on(atom, roles.tvars, ('state', '_state')):
        return ('nonfinal', 'unknown', '')
    if roles.about_task(atom):
        return ('other', 'unknown', 'task')
    if roles.about_pilot(atom):
        if isinstance(atom, ast.Call) and dotted(atom.func) == 'isinstance':
            return (None, 'ok', '')
        return ('other', 'unknown', 'pilot')
    return (None, 'ok', '')


def r13_1(prog, rep, f, rid='R13.1'):
    final, failed = _consts(prog)
    rep.saw(f)
    g = cfg_of(f)
    rep.stat('cfg_nodes', len(g.nodes))
    smap = I.stmt_node_map(g)
    sites = failing_updates(prog, f, failed)
    for call, tvar, dicts in sites:
        node = smap[id(call)]
        tloop = _enclosing_for(g, node, tvar)
        if tloop is None:
            raise AnalysisError('UNRECOGNISED-IDIOM %s: `%s` is not inside a '
                                'loop over tasks' % (f.where, short(call, 60)))
        # pilot loop: enclosing for whose iterable derives from the parameter
        ploop = None
        d0 = Deps(f.node, implicit=False)
        params = [p for p in f.params if p != 'self']
        for h in node.loops:
            hn = g.nodes[h]
            if hn is tloop or hn.kind != 'for':
                continue
            if isinstance(hn.ast.target, ast.Name) and params and \
                    params[0] in d0.expr_depends(hn.ast.iter):
                ploop = hn
        if ploop is None:
            raise AnalysisError('UNRECOGNISED-IDIOM %s: `%s` is not inside a '
                                'loop over the pilots given to the callback'
                                % (f.where, short(call, 60)))
        pvar = ploop.ast.target.id
        tvars = {tvar}
        atoms = []
        # a filtering iterable (comprehension, filter(pred, ..), possibly
        # through a local name) counts as guards of the loop element
        more, conds = iterable_guards(f, g, tloop.ast.iter, tloop.id)
        tvars |= more
        for cond in conds:
            for c, pol in _conj(cond, True):
                atoms.append((c, pol))
        start = loop_slice(g, ploop.id)[0]
        for tid, lab in guards(g, node.id, start=start):
            atoms.append((g.nodes[tid].ast, lab == 'T'))
        roles = Roles(f, tvars, pvar)
        found = {'binding': [], 'nonfinal': [], 'pilotfinal': [], 'other': []}
        for atom, pol in atoms:
            kind, verdict, text = classify(prog, f, roles, atom, pol, final)
            if kind:
                found[kind].append((atom, pol, verdict, text))
        for kind in found:
            unk = [x for x in found[kind] if x[2] == 'unknown']
            if unk and not any(x[2] == 'wrong' for x in found[kind]):
                raise AnalysisError(
                    'UNRECOGNISED-IDIOM %s: `%s` is guarded by `%s` (taken '
                    'when %s), a test on the %s the recogniser does not know'
                    % (f.where, short(call, 50), short(unk[0][0], 60),
                       unk[0][1], {'binding': "task's pilot",
                                   'nonfinal': "task's state",
                                   'pilotfinal': "pilot's state",
                                   'other': unk[0][3]}[kind]))
        ctext = short(call, 60)
        spec = [
            ('pilotfinal', 'the state of the pilot being final',
             'pilot final',
             'a pilot that merely changes state (say to PMGR_ACTIVE) fails '
             'the tasks', 'pilot p1 becomes PMGR_ACTIVE: its tasks are '
             'reported FAILED'),
            ('binding', "a comparison of the task's pilot with the ending "
             "pilot's uid", 'pilot binding',
             'every task of the manager is failed, whatever pilot it runs on',
             'two pilots p1, p2; task t2 is bound to p2 and task t0 is not '
             'bound yet; p1 ends: t2 and t0 are reported FAILED'),
            ('nonfinal', 'the task not being in a final state', 'non-final',
             'tasks that are already final are updated again',
             'task t1 on pilot p1 was CANCELED (or is DONE); p1 ends: '
             'Task._update overwrites CANCELED with FAILED and the final '
             'task is published once more'),
        ]
        for kind, what, tag, effect, hist in spec:
            hits = found[kind]
            good = [x for x in hits if x[2] == 'ok']
            bad  = [x for x in hits if x[2] == 'wrong']
            part = [x for x in hits if x[2] == 'partial']
            if part and not good and not bad:
                # several partial tests may add up to the required set
                sets = [roles.allowed[id(x[0])] for x in part]
                joint = set.intersection(*sets)
                fin = set(final)
                if kind == 'nonfinal' and not (joint & fin) or \
                        kind == 'pilotfinal' and joint == fin:
                    good = part
                else:
                    bad = part
            if bad:
                atom, pol, _, text = bad[0]
                rep.bad(rid, f, '%s [%s: %s taken when %s]'
                        % (ctext, tag, unparse(atom), pol),
                        '%s: the FAILED update `%s` is guarded by `%s` taken '
                        'when %s: a test of %s with the wrong polarity or '
                        'operands%s' % (f.qual, ctext, short(atom, 60), pol,
                                        what, ' - ' + text if text else ''),
                        f.loc(atom), history=hist)
            elif good:
                rep.ok(rid, f, '%s: `%s` is control dependent on %s (`%s` '
                       'when %s)' % (f.qual, ctext, what,
                                     short(good[0][0], 50), good[0][1]),
                       f.loc(call))
            else:
                rep.bad(rid, f, '%s [no test: %s]' % (ctext, tag),
                        '%s: the FAILED update `%s` is not control dependent '
                        'on %s: %s' % (f.qual, ctext, what, effect),
                        f.loc(call), history=hist)
        for atom, pol, verdict, text in found['other']:
            pass                      # unknown ones raised above
        # the explanation names the pilot
        named = False
        for dl in dicts:
            for k, v in zip(dl.keys, dl.values):
                if isinstance(k, ast.Constant) and isinstance(k.value, str) \
                        and 'exception' in k.value:
                    dep = roles.d.expr_depends(v)
                    if dep & {pvar + '.uid', pvar + '._uid',
                              "%s['uid']" % pvar}:
                        named = True
        rep.check(named, rid, f, '%s: the explanation of the FAILED update is '
                  'built from the uid of the ending pilot' % f.qual,
                  construct='%s [explanation]' % ctext,
                  message='%s: neither `exception` nor `exception_detail` of '
                  'the FAILED update depends on the uid of the ending pilot: '
                  'the application cannot tell which pilot took the task down'
                  % f.qual, loc=f.loc(call),
                  history='pilot p1 ends: task.exception_detail of its tasks '
                  'does not mention p1')
    return len(sites)


def iterable_guards(f, g, it, at, depth=0):
    """(names of the element inside the conditions, [conditions every element
    delivered by the iterable satisfies])"""
    names, conds = set(), []
    if depth > 4:
        return names, conds
    if isinstance(it, ast.Name):
        defs, undef = defs_reaching(g, it.id, at)
        if not undef and len(defs) == 1 and defs[0].kind == 'stmt' and \
                isinstance(defs[0].ast, ast.Assign) and \
                len(defs[0].ast.targets) == 1 and \
                isinstance(defs[0].ast.targets[0], ast.Name):
            # the list must not be extended behind the filter
            for n in walk(f.node):
                if isinstance(n, ast.Call) and \
                        isinstance(n.func, ast.Attribute) and \
                        n.func.attr in ('append', 'extend', 'insert') and \
                        isinstance(n.func.value, ast.Name) and \
                        n.func.value.id == it.id:
                    return names, conds
            return iterable_guards(f, g, defs[0].ast.value, defs[0].id,
                                   depth + 1)
        return names, conds
    if isinstance(it, (ast.ListComp, ast.GeneratorExp, ast.SetComp)) and \
            len(it.generators) == 1 and \
            isinstance(it.generators[0].target, ast.Name) and \
            isinstance(it.elt, ast.Name) and \
            it.elt.id == it.generators[0].target.id:
        names.add(it.elt.id)
        conds += list(it.generators[0].ifs)
        n2, c2 = iterable_guards(f, g, it.generators[0].iter, at, depth + 1)
        # conditions of an inner filter speak about their own element name:
        # rename it to ours
        for c in c2:
            conds.append(_rename(c, n2, it.elt.id))
        return names, conds
    if isinstance(it, ast.Call) and dotted(it.func) in ('list', 'tuple',
                                                        'sorted', 'iter') \
            and len(it.args) == 1:
        return iterable_guards(f, g, it.args[0], at, depth + 1)
    if isinstance(it, ast.Call) and dotted(it.func) == 'filter' and \
            len(it.args) == 2:
        pred = it.args[0]
        body, params, defaults = None, [], {}
        if isinstance(pred, ast.Lambda):
            body, a = pred.body, pred.args
        elif isinstance(pred, ast.Name):
            fn = None
            h = f
            while h is not None and fn is None:
                fn = h.nested.get(pred.id)
                h = h.parent
            a = fn.node.args if fn is not None else None
            if fn is not None:
                stmts = [x for x in fn.node.body
                         if not (isinstance(x, ast.Expr) and
                                 isinstance(x.value, ast.Constant))]
                if len(stmts) == 1 and isinstance(stmts[0], ast.Return) and \
                        stmts[0].value is not None:
                    body = stmts[0].value
        if body is None:
            return names, conds
        params = [x.arg for x in a.args]
        if not params:
            return names, conds
        nd = len(a.defaults)
        for prm, dv in zip(a.args[len(a.args) - nd:], a.defaults):
            defaults[prm.arg] = dv
        # parameters bound by a default (`_pid=pid`) stand for that value
        body = _substitute(body, {k: v for k, v in defaults.items()
                                  if k != params[0]})
        names.add(params[0])
        conds.append(body)
        n2, c2 = iterable_guards(f, g, it.args[1], at, depth + 1)
        for c in c2:
            conds.append(_rename(c, n2, params[0]))
        return names, conds
    return names, conds


def _substitute(expr, mapping):
    import copy

    class T(ast.NodeTransformer):
        def visit_Name(self, n):
            if isinstance(n.ctx, ast.Load) and n.id in mapping:
                return copy.deepcopy(mapping[n.id])
            return n
    return T().visit(copy.deepcopy(expr))


def _rename(expr, olds, new):
    return _substitute(expr, {o: ast.Name(id=new, ctx=ast.Load())
                              for o in olds if o != new})


def _conj(expr, pol):
    """atoms of a condition that is required to be `pol`: only conjunctive
    parts are guards"""
    if isinstance(expr, ast.UnaryOp) and isinstance(expr.op, ast.Not):
        return _conj(expr.operand, not pol)
    if isinstance(expr, ast.BoolOp):
        if isinstance(expr.op, ast.And) and pol or \
                isinstance(expr.op, ast.Or) and not pol:
            out = []
            for v in expr.values:
                out += _conj(v, pol)
            return out
        return []
    return [(expr, pol)]


# ------------------------------------------------------------------------------
#
def r13_2(prog, rep, rid='R13.2'):
    rep.rule(rid, 'TaskManager.add_pilots registers _pilot_state_cb (pilot '
             'state metric) on every pilot object it is given', minimum=2)
    tm = prog.cls(*TMGR)
    f = prog.method(TMGR[0], TMGR[1], 'add_pilots')
    cb = prog.find_method(tm, '_pilot_state_cb')
    if cb is None:
        raise AnalysisError('anchor TaskManager._pilot_state_cb not found')
    rep.saw(f)
    g = cfg_of(f)
    smap = I.stmt_node_map(g)
    params = [p for p in f.params if p != 'self']
    if not params:
        raise AnalysisError('anchor %s takes no pilots' % f.where)
    heads = [n for n in g.nodes if n.kind == 'for' and
             isinstance(n.ast.iter, ast.Name) and n.ast.iter.id == params[0]
             and isinstance(n.ast.target, ast.Name)]
    if len(heads) != 1:
        raise AnalysisError('UNRECOGNISED-IDIOM %s: expected one loop over %r, '
                            'found %d' % (f.where, params[0], len(heads)))
    head = heads[0]
    pvar = head.ast.target.id
    # the loop is on every normal path
    on_all = g.exit.id not in g.reachable(g.entry.id, skip_nodes={head.id})
    rep.check(on_all, rid, f, 'add_pilots: every normal path runs the loop '
              'over the given pilots', construct='loop over pilots',
              message='add_pilots: a path to the normal return avoids the '
              'loop over the given pilots: those pilots are added without a '
              'state callback', loc=f.loc(head.ast),
              history='a pilot added on that path ends: its tasks keep '
              'waiting forever')
    regs = []
    for c in calls_in(head.ast):
        if isinstance(c.func, ast.Attribute) and \
                c.func.attr == 'register_callback' and c.args and \
                unparse(c.args[0]) == 'self._pilot_state_cb' or \
                isinstance(c.func, ast.Attribute) and \
                c.func.attr == 'register_callback' and \
                kwarg(c, 'cb') is not None and \
                unparse(kwarg(c, 'cb')) == 'self._pilot_state_cb':
            regs.append(c)
    if not regs:
        rep.bad(rid, f, 'register_callback(self._pilot_state_cb) missing',
                'add_pilots does not register self._pilot_state_cb on the '
                'pilots it adds: the manager never learns that a pilot ended',
                f.loc(head.ast),
                history='pilot p1 is added, tasks are bound to it, p1 FAILS: '
                'the tasks stay in their last state forever')
        return
    start = loop_slice(g, head.id)[0]
    pilot_metric = prog.const('constants.py', 'PILOT_STATE')
    for c in regs:
        node = smap[id(c)]
        recv_ok = isinstance(c.func.value, ast.Name) and \
            c.func.value.id == pvar
        extra = []
        for tid, lab in guards(g, node.id, start=start):
            a = g.nodes[tid].ast
            if isinstance(a, ast.Call) and dotted(a.func) == 'isinstance' and \
                    len(a.args) == 2 and unparse(a.args[0]) == pvar and \
                    'dict' in unparse(a.args[1]) and lab == 'F':
                continue
            extra.append((a, lab))
        why = ''
        if not recv_ok:
            why = 'is not made on the loop variable %r' % pvar
        elif extra:
            why = 'is conditional on `%s` (taken when %s)' % (
                short(extra[0][0], 50), extra[0][1] == 'T')
        rep.check(recv_ok and not extra, rid, f,
                  'add_pilots: `%s` runs for every pilot object of the loop'
                  % short(c, 60), construct=c,
                  message='add_pilots: the registration `%s` %s: some added '
                  'pilots have no state callback' % (short(c, 60), why),
                  loc=f.loc(c),
                  history='a pilot for which the condition does not hold is '
                  'added and later FAILS: its tasks are never reported FAILED')
        # metric: explicit or the default of Pilot.register_callback
        m = kwarg(c, 'metric', 1)
        where = 'explicit'
        if m is None:
            pf = prog.method(PILOT[0], PILOT[1], 'register_callback')
            a = pf.node.args
            names = [x.arg for x in a.args]
            m = None
            if 'metric' in names:
                i = names.index('metric') - (len(names) - len(a.defaults))
                if i >= 0:
                    m = a.defaults[i]
                    mv = prog.fold(pf.module, m, pf.cls)
            where = 'default of Pilot.register_callback'
            if m is None:
                raise AnalysisError('UNRECOGNISED-IDIOM %s: no default for '
                                    '`metric`' % pf.where)
        else:
            mv = prog.fold(f.module, m, f.cls)
        rep.check(mv == pilot_metric, rid, f,
                  'add_pilots: the callback is registered for rpc.PILOT_STATE '
                  '(%s)' % where, construct='%s [metric]' % short(c, 60),
                  message='add_pilots: the callback is registered for metric '
                  '%r, not for pilot state changes' % (mv,), loc=f.loc(c),
                  history='pilot p1 FAILS: _pilot_state_cb is not invoked')


# ------------------------------------------------------------------------------
#
def run(prog, rep, tier):
    rep.decided = ('in TaskManager._pilot_state_cb the update that fails a '
        'task is control dependent, with the right polarity, on the pilot '
        'being final, on `task.pilot == <uid of that pilot>` and on the task '
        'not being final, and its explanation is built from the pilot uid; '
        'TaskManager.add_pilots registers that callback for the pilot state '
        'metric on every pilot object.')
    rep.undecided = ('nothing of the statement beyond the delivery of pilot '
        'state notifications (C14) and the stickiness of final task states '
        'inside Task._update (C06).')
    rep.assumptions = [
        'Task.pilot is the binding published by the tmgr scheduler '
        '(Task._update copies `pilot` from the state notification)',
        'guards are the branch edges every path from the start of one '
        'iteration of the pilot loop to the update must take, plus the '
        'conditions of a filtering comprehension used as the iterable',
        'dependence of names on `pilot.uid` / `pilot.state` is the '
        'flow-insensitive closure over assignments (no implicit flows)',
    ]
    rep.rule('R13.1', 'the FAILED update in _pilot_state_cb is control '
             'dependent on: pilot final, task bound to that pilot, task not '
             'final; its explanation names the pilot', minimum=4)
    f = prog.method(TMGR[0], TMGR[1], '_pilot_state_cb')
    n = r13_1(prog, rep, f)
    if n < 1:
        raise AnalysisError('R13.1: no `<task>._update({... state: rps.FAILED '
                            '...})` found in %s' % f.where)
    r13_2(prog, rep)
    if tier == 'thorough':
        # sweep: the same rule on every other method of the package's manager
        # classes that fails tasks because of a pilot (none today)
        rep.rule('R13.1s', 'sweep of R13.1 over every method of task_manager.py '
                 'that updates tasks to FAILED inside a loop over pilots',
                 minimum=0)
        final, failed = _consts(prog)
        m = prog.module(TMGR[0])
        k = 0
        for c in m.classes.values():
            for name, fn in sorted(c.methods.items()):
                if fn is f:
                    continue
                try:
                    if failing_updates(prog, fn, failed):
                        k += r13_1(prog, rep, fn, rid='R13.1s')
                except AnalysisError as e:
                    rep.info('R13.1s', fn, str(e))
        rep.stat('sweep_sites', k)


# ------------------------------------------------------------------------------
# self-test variants (texts refer to the tree with the F03 repair committed)
#
_TM = 'task_manager.py'

_HEAD = "                for task in self._tasks.values():\n\n"
_CMT  = ("                    # only tasks bound to this pilot are affected, and only\n"
         "                    # if they did not reach a final state on their own\n")
_BIND = "                    if task.pilot != pid:\n                        continue\n\n"
_NFIN = "                    if task.state in rps.FINAL:\n                        continue\n\n"
_UPD  = ("                    update = {'uid'             : task.uid,\n"
         "                              'exception'       : 'RuntimeError(\"pilot died\")',\n"
         "                              'exception_detail': 'pilot %s is final' % pid,\n"
         "                              'state'           : rps.FAILED}\n\n"
         "                    task._update(update)\n"
         "                    tasks.append(task.as_dict())\n")
_UPD_NESTED = ("                        update = {'uid'             : task.uid,\n"
         "                                  'exception'       : 'RuntimeError(\"pilot died\")',\n"
         "                                  'exception_detail': 'pilot %s is final' % pid,\n"
         "                                  'state'           : rps.FAILED}\n\n"
         "                        task._update(update)\n"
         "                        tasks.append(task.as_dict())\n")
_NFT  = "                    if task.state in rps.FINAL:\n"
_GUARDED = _HEAD + _CMT + _BIND + _NFIN + _UPD

# the repair of F03 as an edit on the unrepaired text (kept for reference and
# for trees that do not carry the repair; make_overlay treats it as applied
# when the new text is already there)
FIX_F03 = (_TM, _HEAD + "                    update = {'uid'             : task.uid,\n",
           _HEAD + _CMT + _BIND + _NFIN +
           "                    update = {'uid'             : task.uid,\n")

MUTATIONS = [
    dict(name='R13.1 F03 reverted: binding test removed', rules=('R13.1',), edits=[
        (_TM, _BIND, "")]),
    dict(name='R13.1 F03 reverted: non-final test removed', rules=('R13.1',), edits=[
        (_TM, _NFIN, "")]),
    dict(name='R13.1 F03 reverted completely', rules=('R13.1',), edits=[
        (_TM, _CMT + _BIND + _NFIN, "")]),
    dict(name='R13.1 binding test inverted', rules=('R13.1',), edits=[
        (_TM, "                    if task.pilot != pid:\n", "                    if task.pilot == pid:\n")]),
    dict(name='R13.1 non-final test inverted', rules=('R13.1',), edits=[
        (_TM, "                    if task.state in rps.FINAL:\n", "                    if task.state not in rps.FINAL:\n")]),
    dict(name='R13.1 only DONE and FAILED tasks are skipped', rules=('R13.1',), edits=[
        (_TM, "                    if task.state in rps.FINAL:\n", "                    if task.state in [rps.DONE, rps.FAILED]:\n")],
         note='a CANCELED task still becomes FAILED'),
    dict(name='R13.1 binding compared with the wrong polarity in nested form',
         rules=('R13.1',), edits=[
        (_TM, _GUARDED,
              _HEAD + "                    if task.pilot != pid and task.state not in rps.FINAL:\n\n" + _UPD_NESTED)]),
    dict(name='R13.1 pilot-final test dropped', rules=('R13.1',), edits=[
        (_TM, "            if state in rps.FINAL:\n\n                self._log.debug('pilot %s is final', pid)",
              "            if state:\n\n                self._log.debug('pilot %s is final', pid)")]),
    dict(name='R13.1 pilot-final test inverted', rules=('R13.1',), edits=[
        (_TM, "            if state in rps.FINAL:\n\n                self._log.debug('pilot %s is final', pid)",
              "            if state not in rps.FINAL:\n\n                self._log.debug('pilot %s is final', pid)")]),
    dict(name='R13.1 only FAILED pilots take their tasks down', rules=('R13.1',), edits=[
        (_TM, "            if state in rps.FINAL:\n\n                self._log.debug('pilot %s is final', pid)",
              "            if state == rps.FAILED:\n\n                self._log.debug('pilot %s is final', pid)")],
         note='tasks of a CANCELED or DONE pilot wait forever'),
    dict(name='R13.1 explanation does not name the pilot', rules=('R13.1',), edits=[
        (_TM, "'exception_detail': 'pilot %s is final' % pid,", "'exception_detail': 'pilot is final',")]),
    dict(name='R13.2 callback not registered', rules=('R13.2',), edits=[
        (_TM, "                    pilot_dict = pilot.as_dict()\n                    pilot.register_callback(self._pilot_state_cb)\n",
              "                    pilot_dict = pilot.as_dict()\n")]),
    dict(name='R13.2 callback registered only for pilots that are not active yet',
         rules=('R13.2',), edits=[
        (_TM, "                    pilot.register_callback(self._pilot_state_cb)\n",
              "                    if pilot.state != rps.PMGR_ACTIVE:\n                        pilot.register_callback(self._pilot_state_cb)\n")]),
    dict(name='R13.2 callback registered for another metric', rules=('R13.2',), edits=[
        (_TM, "                    pilot.register_callback(self._pilot_state_cb)\n",
              "                    pilot.register_callback(self._pilot_state_cb,\n                                            metric=rpc.TASK_STATE)\n")]),
    dict(name='R13.2 registration after the loop, on the last pilot only',
         rules=('R13.2',), edits=[
        (_TM, "                    pilot.register_callback(self._pilot_state_cb)\n", ""),
        (_TM, "        # publish to the command channel for the scheduler to pick up\n        self.publish(rpc.CONTROL_PUBSUB, {'cmd' : 'add_pilots',",
              "        pilot.register_callback(self._pilot_state_cb)\n\n        # publish to the command channel for the scheduler to pick up\n        self.publish(rpc.CONTROL_PUBSUB, {'cmd' : 'add_pilots',")]),
    dict(name='R13.2 default metric of Pilot.register_callback changed',
         rules=('R13.2',), edits=[
        ('pilot.py', "    def register_callback(self, cb, metric=rpc.PILOT_STATE, cb_data=None):",
                     "    def register_callback(self, cb, metric=None, cb_data=None):")]),
    dict(name='R13.1 tasks in tmgr output staging are spared (value > AGENT_STAGING_OUTPUT)',
         rules=('R13.1',), edits=[
        (_TM, _NFT, "                    if rps._task_state_value(task.state) > \\\n                       rps._task_state_value(rps.AGENT_STAGING_OUTPUT):\n")]),
    dict(name='R13.1 tasks in TMGR_STAGING_OUTPUT are spared', rules=('R13.1',), edits=[
        (_TM, _NFT, "                    if rps._task_state_values[task.state] > \\\n                       rps._task_state_values[rps.TMGR_STAGING_OUTPUT_PENDING]:\n")]),
    dict(name='R13.1 value test that no state satisfies', rules=('R13.1',), edits=[
        (_TM, _NFT, "                    if rps._task_state_value(task.state) > \\\n                       rps._task_state_value(rps.DONE):\n")],
         note='final tasks are updated again'),
    dict(name='R13.1 tasks die with a pilot that merely became active',
         rules=('R13.1',), edits=[
        (_TM, "            if state in rps.FINAL:\n\n                self._log.debug('pilot %s is final', pid)",
              "            if rps._pilot_state_value(state) >= \\\n               rps._pilot_state_value(rps.PMGR_ACTIVE):\n\n                self._log.debug('pilot %s is final', pid)")]),
    dict(name='R13.1 filtering comprehension bound to a local lacks the binding test',
         rules=('R13.1',), edits=[
        (_TM, "                tasks = list()\n" + _HEAD + _CMT + _BIND + _NFIN,
              "                orphans = [task for task in self._tasks.values()\n"
              "                                if task.state not in rps.FINAL]\n\n"
              "                tasks  = list()\n"
              "                for task in orphans:\n\n")]),
    dict(name='R13.1 local predicate for filter() tests the binding with !=',
         rules=('R13.1',), edits=[
        (_TM, "                tasks = list()\n" + _HEAD + _CMT + _BIND + _NFIN,
              "                def _is_orphan(task, _pid=pid):\n"
              "                    return task.pilot != _pid and task.state not in rps.FINAL\n\n"
              "                tasks = list()\n"
              "                for task in filter(_is_orphan, self._tasks.values()):\n\n")]),
    dict(name='R13.1 merged guard joined with `and` instead of `or`',
         rules=('R13.1',), edits=[
        (_TM, _BIND + _NFIN,
              "                    if task.pilot != pid and task.state in rps.FINAL:\n                        continue\n\n")]),
]

SILENT = [
    dict(name='non-final test by value: >= value(DONE)', edits=[
        (_TM, _NFT, "                    if rps._task_state_value(task.state) >= \\\n                       rps._task_state_value(rps.DONE):\n")]),
    dict(name='non-final test by value table equality', edits=[
        (_TM, _NFT, "                    if rps._task_state_values[task.state] == \\\n                       rps._task_state_values[rps.FAILED]:\n")]),
    dict(name='non-final test split in two partial tests', edits=[
        (_TM, _NFIN, "                    if task.state in [rps.DONE, rps.FAILED]:\n                        continue\n\n                    if task.state == rps.CANCELED:\n                        continue\n\n")]),
    dict(name='pilot-final test by value: beyond PMGR_ACTIVE', edits=[
        (_TM, "            if state in rps.FINAL:\n\n                self._log.debug('pilot %s is final', pid)",
              "            if rps._pilot_state_value(state) > \\\n               rps._pilot_state_value(rps.PMGR_ACTIVE):\n\n                self._log.debug('pilot %s is final', pid)")]),
    dict(name='guards as one combined early continue', edits=[
        (_TM, _BIND + _NFIN,
              "                    if task.pilot != pid or task.state in rps.FINAL:\n                        continue\n\n")]),
    dict(name='guards in nested if form, operands swapped', edits=[
        (_TM, _GUARDED,
              _HEAD + "                    if pid == task.pilot and task.state not in rps.FINAL:\n\n" + _UPD_NESTED)]),
    dict(name='guards as a filtering comprehension used as the iterable', edits=[
        (_TM, _HEAD + _CMT + _BIND + _NFIN,
              "                for task in [t for t in self._tasks.values()\n"
              "                                     if  t.pilot == pid\n"
              "                                     and t.state not in rps.FINAL]:\n\n")]),
    dict(name='non-final test before the binding test', edits=[
        (_TM, _BIND + _NFIN, _NFIN + _BIND)]),
    dict(name='pilot-final test in early-continue form, uid read directly', edits=[
        (_TM, "            if state in rps.FINAL:\n\n                self._log.debug('pilot %s is final', pid)\n",
              "            if pilot.state not in rps.FINAL:\n                continue\n\n            if True:\n\n                self._log.debug('pilot %s is final', pid)\n")]),
    dict(name='locals renamed', edits=[
        (_TM, "            pid   = pilot.uid\n            state = pilot.state\n\n            if state in rps.FINAL:\n\n                self._log.debug('pilot %s is final', pid)",
              "            puid  = pilot.uid\n            pid   = puid\n            state = pilot.state\n\n            if state in rps.FINAL:\n\n                self._log.debug('pilot %s is final', puid)"),
        (_TM, "'exception_detail': 'pilot %s is final' % pid,", "'exception_detail': 'pilot %s is final' % puid,")]),
    dict(name='registration before attach_tmgr, explicit metric', edits=[
        (_TM, "                    pilot.attach_tmgr(self)\n\n                    pilot_dict = pilot.as_dict()\n                    pilot.register_callback(self._pilot_state_cb)\n",
              "                    pilot.register_callback(self._pilot_state_cb,\n                                            metric=rpc.PILOT_STATE)\n                    pilot.attach_tmgr(self)\n\n                    pilot_dict = pilot.as_dict()\n")]),
    dict(name='dict test written as early continue for dicts', edits=[
        (_TM, "                if isinstance(pilot, dict):\n                    pilot_dict = pilot\n\n                else:\n",
              "                if isinstance(pilot, dict):\n                    pilot_dict = pilot\n\n                if not isinstance(pilot, dict):\n")]),
    dict(name='corpus r2: guards as a comprehension bound to a local, plain loop', edits=[
        (_TM, "                tasks = list()\n" + _HEAD + _CMT + _BIND + _NFIN,
              "                orphans = [task for task in self._tasks.values()\n"
              "                                if  task.pilot == pid\n"
              "                                and task.state not in rps.FINAL]\n\n"
              "                detail = 'pilot %s is final' % pid\n"
              "                tasks  = list()\n"
              "                for task in orphans:\n\n"),
        (_TM, "'exception_detail': 'pilot %s is final' % pid,", "'exception_detail': detail,")]),
    dict(name='corpus r3: merged `or` guard, FINAL cached in a local, dict inline', edits=[
        (_TM, "        for pilot in pilots:\n\n            pid   = pilot.uid\n            state = pilot.state\n\n            if state in rps.FINAL:\n",
              "        final = rps.FINAL\n        known = self._tasks\n\n        for pilot in pilots:\n\n            pid    = pilot.uid\n            pstate = pilot.state\n\n            if pstate in final:\n"),
        (_TM, _GUARDED,
              "                for task in known.values():\n\n"
              "                    if task.pilot != pid or task.state in final:\n"
              "                        continue\n\n"
              "                    task._update({'uid'             : task.uid,\n"
              "                                  'exception'       : 'RuntimeError(\"pilot died\")',\n"
              "                                  'exception_detail': 'pilot %s is final' % pid,\n"
              "                                  'state'           : rps.FAILED})\n"
              "                    tasks.append(task.as_dict())\n")]),
    dict(name='corpus r4: guards as a local predicate used through filter()', edits=[
        (_TM, "                tasks = list()\n" + _HEAD + _CMT + _BIND + _NFIN,
              "                def _is_orphan(task, _pid=pid):\n"
              "                    return task.pilot == _pid and task.state not in rps.FINAL\n\n"
              "                tasks = list()\n"
              "                for task in filter(_is_orphan, self._tasks.values()):\n\n")]),
    dict(name='guards as a lambda passed to filter()', edits=[
        (_TM, _HEAD + _CMT + _BIND + _NFIN,
              "                for task in filter(lambda t: t.pilot == pid and\n"
              "                                   not t.state in rps.FINAL,\n"
              "                                   self._tasks.values()):\n\n")]),
]
